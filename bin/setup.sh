#!/bin/sh
# MANIFEST.setup_cmd: build the overlay venv offline and self-test the environment models.
set -e
VERIF="$(cd "$(dirname "$0")/.." && pwd)"
"$VERIF/bin/bootstrap.sh"
cd "$VERIF"
exec "$VERIF/.venv/bin/python" -m vt.selftest
