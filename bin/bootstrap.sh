#!/bin/sh
# Idempotent offline bootstrap of the overlay venv /verif/.venv (py3.12 of /venv + crosshair-tool, z3-solver, cvc5
# from the local wheelhouse).  Nothing is fetched from a network.
set -e
VERIF="$(cd "$(dirname "$0")/.." && pwd)"
VENV="$VERIF/.venv"
WHEELS=/opt/veriftools/wheels
if [ -x "$VENV/bin/python" ] && "$VENV/bin/python" -c "import crosshair, z3, pydicom, six" >/dev/null 2>&1; then
    exit 0
fi
(
    # serialise concurrent bootstraps
    flock 9
    if [ -x "$VENV/bin/python" ] && "$VENV/bin/python" -c "import crosshair, z3, pydicom, six" >/dev/null 2>&1; then
        exit 0
    fi
    rm -rf "$VENV"
    /venv/bin/python -m venv "$VENV"
    SP="$("$VENV/bin/python" -c 'import sysconfig; print(sysconfig.get_paths()["purelib"])')"
    echo "import site; site.addsitedir('/venv/lib/python3.12/site-packages')" > "$SP/_base.pth"
    PIP_NO_INDEX=1 "$VENV/bin/python" -m pip install -q --no-index --find-links "$WHEELS" crosshair-tool z3-solver >&2
    "$VENV/bin/python" -c "import crosshair, z3, pydicom, six"
) 9>"$VERIF/.bootstrap.lock"
