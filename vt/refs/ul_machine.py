"""Executable reference model of the DICOM upper-layer protocol machine (PS3.8 section 9.2) built on the
transcription of Table 9-10 in table_9_10.py.  No import from pynetdicom2.

The model tracks: protocol state 1..13, ARTIM running?, transport connection open?  step(event, pdu_type) returns
(sent, indicated): lists of PDU type codes written to the peer / handed to the local user ('dimse' stands for a P-DATA
indication).  Events undefined in the current state raise Undefined.
"""
from . import table_9_10 as T


class Undefined(Exception):
    pass


PDU_EVENT = {1: 6, 2: 3, 3: 4, 4: 10, 5: 12, 6: 13, 7: 16}       # received PDU type -> event
USER_EVENT = {1: 1, 2: 7, 3: 8, 4: 9, 5: 11, 6: 14, 7: 15}      # primitive (as PDU type) -> event


class RefUL(object):
    def __init__(self, requestor):
        self.requestor = requestor
        self.state = 1
        self.artim = False
        self.transport = False
        self.history = []
        self.now = 0                # model time (seconds); advanced by the harness
        self.artim_start = None     # instant of the last ARTIM start / restart while it is running
        if not requestor:
            # the acceptor's machine starts with a transport connection indication
            self.transport = True
            self.step(5)

    def step(self, evt, pdu_type=None, complete=True):
        eff = T.effect(evt, self.state, self.requestor)
        if eff is None:
            raise Undefined((evt, self.state))
        act, send, ind, close, timer, nxt = eff
        sent, indicated = [], []
        if send == 'primitive':
            sent.append(pdu_type)
        elif send == 'A-RELEASE-RQ':
            sent.append(5)
        elif send == 'A-RELEASE-RP':
            sent.append(6)
        elif send in ('A-ABORT', 'A-ABORT-primitive-or-new'):
            sent.append(7)
        if ind == 'pdu':
            indicated.append(pdu_type)
        elif ind == 'P-ABORT':
            indicated.append(7)
        elif ind == 'P-DATA':
            if complete:
                indicated.append('dimse')
        if act == 'AE-1':
            self.transport = True
        if close:
            self.transport = False
        if evt == 17:
            self.transport = False
        if timer in ('start', 'restart'):
            self.artim = True
            self.artim_start = self.now
        elif timer == 'stop':
            self.artim = False
            self.artim_start = None
        self.state = nxt
        self.history.append((evt, act))
        return sent, indicated

    def elapsed_after(self, dt):
        """seconds the ARTIM timer will have been running once the clock has advanced by dt (None: not running)"""
        if not self.artim:
            return None
        return self.now + dt - self.artim_start

    def legal_user(self, prim_type):
        """may the local user issue this primitive now? (the cell is defined)"""
        return T.lookup(USER_EVENT[prim_type], self.state) is not None

    # the properties PS3.8 guarantees of its own machine, used as sanity checks of the model
    def invariant(self):
        ok = self.artim == (self.state in (2, 13))
        ok = ok and (self.transport == (self.state != 1))
        return ok
