"""Independent reader of the DICOM Part-10 file header (PS3.10 section 7.1): 128-byte preamble, 'DICM', file meta group
0002 in explicit VR little endian - no pydicom."""

LONG_VRS = (b'OB', b'OW', b'OF', b'SQ', b'UT', b'UN', b'OD', b'OL', b'UC', b'UR')


class Part10Error(Exception):
    pass


def read_meta(raw):
    """-> (meta elements {(group, element): value bytes}, offset of the first byte after the meta group).

    The extent of the meta group is what (0002,0000) File Meta Information Group Length says (PS3.10 Table 7.1-1);
    the elements inside must fill it exactly."""
    if len(raw) < 132 or raw[:128] != b'\0' * 128 or raw[128:132] != b'DICM':
        raise Part10Error('preamble / DICM prefix')
    pos = 132
    if len(raw) < pos + 12 or raw[pos:pos + 8] != b'\x02\x00\x00\x00UL\x04\x00':
        raise Part10Error('first meta element is not (0002,0000) UL 4')
    group_len = int.from_bytes(raw[pos + 8:pos + 12], 'little')
    elems = {(2, 0): raw[pos + 8:pos + 12]}
    pos += 12
    end = pos + group_len
    if end > len(raw):
        raise Part10Error('group length runs past the file')
    while pos < end:
        if pos + 8 > end:
            raise Part10Error('truncated element header')
        g = int.from_bytes(raw[pos:pos + 2], 'little')
        e = int.from_bytes(raw[pos + 2:pos + 4], 'little')
        if g != 2:
            raise Part10Error('element of group %04x inside the meta group' % g)
        vr = raw[pos + 4:pos + 6]
        if vr in LONG_VRS:
            if pos + 12 > end:
                raise Part10Error('truncated long element header')
            ln = int.from_bytes(raw[pos + 8:pos + 12], 'little')
            pos += 12
        else:
            ln = int.from_bytes(raw[pos + 6:pos + 8], 'little')
            pos += 8
        if pos + ln > end:
            raise Part10Error('element value runs past the meta group')
        elems[(g, e)] = raw[pos:pos + ln]
        pos += ln
    return elems, end


def text(v):
    return v.decode('ascii').rstrip('\0 ')
