"""Independent reader of DICOM implicit-VR little-endian element streams (PS3.5 7.1.3) - no pydicom."""


def parse(raw, limit=64):
    """-> list of (group, element, value bytes) or None when the stream is not a well-formed element sequence."""
    out = []
    pos = 0
    n = len(raw)
    while pos < n:
        if pos + 8 > n or len(out) >= limit:
            return None
        g = int.from_bytes(raw[pos:pos + 2], 'little')
        e = int.from_bytes(raw[pos + 2:pos + 4], 'little')
        ln = int.from_bytes(raw[pos + 4:pos + 8], 'little')
        pos += 8
        if pos + ln > n:
            return None
        out.append((g, e, raw[pos:pos + ln]))
        pos += ln
    return out


def us(value):
    return int.from_bytes(value, 'little') if len(value) == 2 else None


def ul(value):
    return int.from_bytes(value, 'little') if len(value) == 4 else None


def find(elems, g, e):
    for gg, ee, v in elems:
        if gg == g and ee == e:
            return v
    return None


def command_group_ok(raw):
    """PS3.7 6.3.1 / E.1: (0000,0000) UL first, value = number of bytes following it in the group; ascending tags."""
    elems = parse(raw)
    if not elems:
        return False
    g0, e0, v0 = elems[0]
    if g0 != 0 or e0 != 0 or len(v0) != 4:
        return False
    if ul(v0) != len(raw) - 12:
        return False
    last = (0, 0)
    for g, e, v in elems[1:]:
        if g != 0 or (g, e) <= last:
            return False
        last = (g, e)
    return True
