"""Status classification transcribed from DICOM PS3.7 (Annex C, 9.1.x) and PS3.4 (B.2.3, C.4.1-C.4.3).

Independent of pynetdicom2.statuses.  Only what property C18 states is demanded:
  * 0x0000 is Success for every message type
  * the service-specific codes/ranges of C-STORE, C-FIND, C-GET, C-MOVE get that service's class
  * every other non-zero code is a Failure -- except the codes PS3.7 Annex C lists as general *warnings*
    (0001, 0107, 0116, Bxxx), for which Warning and Failure are both accepted (the property does not fix them)
"""
C_STORE_RSP, C_FIND_RSP, C_GET_RSP, C_MOVE_RSP = 0x8001, 0x8020, 0x8010, 0x8021

# (lo, hi, class) per response command field
SERVICE = {
    C_STORE_RSP: [(0xA700, 0xA7FF, 'Failure'), (0xA900, 0xA9FF, 'Failure'), (0xC000, 0xCFFF, 'Failure'),
                  (0xB000, 0xB000, 'Warning'), (0xB006, 0xB006, 'Warning'), (0xB007, 0xB007, 'Warning')],
    C_FIND_RSP: [(0xA700, 0xA700, 'Failure'), (0xA900, 0xA900, 'Failure'), (0xC000, 0xCFFF, 'Failure'),
                 (0xFE00, 0xFE00, 'Cancel'), (0xFF00, 0xFF01, 'Pending')],
    C_GET_RSP: [(0xA701, 0xA702, 'Failure'), (0xA900, 0xA900, 'Failure'), (0xC000, 0xCFFF, 'Failure'),
                (0xFE00, 0xFE00, 'Cancel'), (0xB000, 0xB000, 'Warning'), (0xFF00, 0xFF00, 'Pending')],
    C_MOVE_RSP: [(0xA701, 0xA702, 'Failure'), (0xA801, 0xA801, 'Failure'), (0xA900, 0xA900, 'Failure'),
                 (0xC000, 0xCFFF, 'Failure'), (0xFE00, 0xFE00, 'Cancel'), (0xB000, 0xB000, 'Warning'),
                 (0xFF00, 0xFF00, 'Pending')],
}


def allowed_classes(command_field, code):
    """Set of classes the standard (as far as C18 states it) allows for `code` in a response of `command_field`."""
    if code == 0:
        return ('Success',)
    for lo, hi, cls in SERVICE.get(command_field, ()):
        if lo <= code <= hi:
            return (cls,)
    if code == 0x0001 or code == 0x0107 or code == 0x0116 or 0xB000 <= code <= 0xBFFF:
        return ('Warning', 'Failure')
    return ('Failure',)
