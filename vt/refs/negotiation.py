"""Reference presentation-context negotiation (PS3.8 7.1.1.13, 9.3.2.2, 9.3.3.2) - independent of pynetdicom2.

decide(proposed, served, supported) -> list of (context id, accept?, allowed transfer syntaxes)
  a context is accepted iff its abstract syntax is served and at least one proposed transfer syntax is supported;
  the transfer syntax returned must be one of proposed ∩ supported (the standard lets the acceptor pick any).
"""


def decide(proposed, served, supported):
    out = []
    for cid, abstract, tss in proposed:
        allowed = [t for t in tss if t in supported]
        ok = (abstract in served) and len(allowed) > 0
        out.append((cid, ok, allowed if ok else []))
    return out
