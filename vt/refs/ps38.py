"""Independent reference codec for the DICOM upper-layer PDUs (PS3.8 section 9.3, Annex D of PS3.7 for the user
information sub-items).  Strictly length-driven: every length field delimits exactly the bytes it governs; unknown
item types are skipped by their length.  No import from pynetdicom2.

Values are plain dicts / lists / tuples:

  A-ASSOCIATE-RQ/AC  {'type': 1|2, 'protocol_version', 'called', 'calling', 'reserved': (r1, r2, r3 bytes),
                      'items': [item, ...]}
     item: ('app', reserved, name) | ('pc_rq', reserved, id, (r2, r3, r4), [sub...]) |
           ('pc_ac', reserved, id, r2, result, r3, [sub...]) | ('user', reserved, [subitem...]) |
           ('unknown', type, reserved, raw)
     sub : ('abs', reserved, name) | ('ts', reserved, name) | ('unknown', type, reserved, raw)
     subitem: ('maxlen', reserved, value) | ('impl_uid', reserved, uid) | ('impl_ver', reserved, name) |
              ('async', reserved, invoked, performed) | ('role', reserved, uid, scu, scp) |
              ('ext', reserved, uid, app_info) | ('user_id', reserved, id_type, resp_req, primary, secondary) |
              ('user_id_ac', reserved, response) | ('generic', type, reserved, raw)
  A-ASSOCIATE-RJ     {'type': 3, 'reserved': (r1, r2), 'result', 'source', 'reason'}
  P-DATA-TF          {'type': 4, 'reserved': r1, 'pdvs': [(context id, payload bytes incl. control header), ...]}
  A-RELEASE-RQ/RP    {'type': 5|6, 'reserved': (r1, r2 as int)}
  A-ABORT            {'type': 7, 'reserved': (r1, r2, r3), 'source', 'reason'}
"""


class RefError(Exception):
    pass


def _u16(b, off):
    return int.from_bytes(b[off:off + 2], 'big')


def _u32(b, off):
    return int.from_bytes(b[off:off + 4], 'big')


def _need(cond, what):
    if not cond:
        raise RefError(what)


def split_pdu(raw):
    """-> (type, reserved, body) of the single PDU that `raw` must be exactly."""
    _need(len(raw) >= 6, 'PDU header incomplete')
    ln = _u32(raw, 2)
    _need(len(raw) == 6 + ln, 'PDU length field %d does not match %d bytes' % (ln, len(raw) - 6))
    return raw[0], raw[1], raw[6:]


def _items(body, off, end, hdr=4):
    """walk (type, reserved, value) triples with 2-byte lengths between off and end"""
    out = []
    while off < end:
        _need(off + 4 <= end, 'item header incomplete')
        t, r, ln = body[off], body[off + 1], _u16(body, off + 2)
        _need(off + 4 + ln <= end, 'item length runs past its container')
        out.append((t, r, body[off + 4:off + 4 + ln]))
        off += 4 + ln
    return out


def _text(b):
    try:
        return b.decode('ascii')
    except UnicodeDecodeError:
        raise RefError('non-ASCII text field')


def parse_sub_user(t, r, v):
    if t == 0x51:
        _need(len(v) == 4, 'maximum length sub-item length')
        return ('maxlen', r, _u32(v, 0))
    if t == 0x52:
        return ('impl_uid', r, _text(v))
    if t == 0x55:
        return ('impl_ver', r, _text(v))
    if t == 0x53:
        _need(len(v) == 4, 'async ops window length')
        return ('async', r, _u16(v, 0), _u16(v, 2))
    if t == 0x54:
        _need(len(v) >= 4, 'role selection too short')
        n = _u16(v, 0)
        _need(len(v) == 2 + n + 2, 'role selection uid length')
        return ('role', r, _text(v[2:2 + n]), v[2 + n], v[3 + n])
    if t == 0x56:
        _need(len(v) >= 2, 'ext negotiation too short')
        n = _u16(v, 0)
        _need(2 + n <= len(v), 'ext negotiation uid length')
        return ('ext', r, _text(v[2:2 + n]), v[2 + n:])
    if t == 0x58:
        _need(len(v) >= 6, 'user identity too short')
        n = _u16(v, 2)
        _need(4 + n + 2 <= len(v), 'user identity primary length')
        m = _u16(v, 4 + n)
        _need(len(v) == 4 + n + 2 + m, 'user identity secondary length')
        try:
            return ('user_id', r, v[0], v[1], v[4:4 + n].decode('utf8'), v[6 + n:6 + n + m].decode('utf8'))
        except UnicodeDecodeError:
            raise RefError('user identity not utf-8')
    if t == 0x59:
        _need(len(v) >= 2, 'user identity ac too short')
        n = _u16(v, 0)
        _need(len(v) == 2 + n, 'user identity ac length')
        return ('user_id_ac', r, _text(v[2:]))
    return ('generic', t, r, v)


def parse_item(t, r, v):
    if t == 0x10:
        return ('app', r, _text(v))
    if t == 0x20:
        _need(len(v) >= 4, 'presentation context too short')
        subs = []
        for st, sr, sv in _items(v, 4, len(v)):
            if st == 0x30:
                subs.append(('abs', sr, _text(sv)))
            elif st == 0x40:
                subs.append(('ts', sr, _text(sv)))
            else:
                subs.append(('unknown', st, sr, sv))
        return ('pc_rq', r, v[0], (v[1], v[2], v[3]), subs)
    if t == 0x21:
        _need(len(v) >= 4, 'presentation context too short')
        subs = []
        for st, sr, sv in _items(v, 4, len(v)):
            if st == 0x40:
                subs.append(('ts', sr, _text(sv)))
            else:
                subs.append(('unknown', st, sr, sv))
        return ('pc_ac', r, v[0], v[1], v[2], v[3], subs)
    if t == 0x50:
        return ('user', r, [parse_sub_user(st, sr, sv) for st, sr, sv in _items(v, 0, len(v))])
    return ('unknown', t, r, v)


def ae_title(b16):
    """AE title field: 16 bytes, leading/trailing spaces (and, leniently, NULs) are padding"""
    return _text(b16).strip(' \0')


def parse(raw):
    t, r1, body = split_pdu(raw)
    if t in (1, 2):
        _need(len(body) >= 68, 'A-ASSOCIATE fixed part incomplete')
        items = [parse_item(it, ir, iv) for it, ir, iv in _items(body, 68, len(body))]
        return {'type': t, 'protocol_version': _u16(body, 0), 'called': ae_title(body[4:20]),
                'calling': ae_title(body[20:36]), 'reserved': (r1, _u16(body, 2), body[36:68]), 'items': items}
    if t == 3:
        _need(len(body) == 4, 'A-ASSOCIATE-RJ length')
        return {'type': 3, 'reserved': (r1, body[0]), 'result': body[1], 'source': body[2], 'reason': body[3]}
    if t == 4:
        pdvs = []
        off = 0
        while off < len(body):
            _need(off + 4 <= len(body), 'PDV length field incomplete')
            ln = _u32(body, off)
            _need(ln >= 1 and off + 4 + ln <= len(body), 'PDV length runs past the PDU')
            pdvs.append((body[off + 4], body[off + 5:off + 4 + ln]))
            off += 4 + ln
        return {'type': 4, 'reserved': r1, 'pdvs': pdvs}
    if t in (5, 6):
        _need(len(body) == 4, 'A-RELEASE length')
        return {'type': t, 'reserved': (r1, _u32(body, 0))}
    if t == 7:
        _need(len(body) == 4, 'A-ABORT length')
        return {'type': 7, 'reserved': (r1, body[0], body[1]), 'source': body[2], 'reason': body[3]}
    raise RefError('unknown PDU type %r' % (t,))


def parse_stream(raw):
    """a byte stream that must consist of whole PDUs -> list of parsed PDUs"""
    out = []
    off = 0
    while off < len(raw):
        _need(off + 6 <= len(raw), 'trailing bytes shorter than a PDU header')
        ln = _u32(raw, off + 2)
        _need(off + 6 + ln <= len(raw), 'last PDU incomplete')
        out.append(parse(raw[off:off + 6 + ln]))
        off += 6 + ln
    return out


# ------------------------------------------------------------------------------------------------
# encoder
# ------------------------------------------------------------------------------------------------

def _tlv(t, r, v):
    return bytes([t, r]) + len(v).to_bytes(2, 'big') + v


def enc_sub_user(s):
    k = s[0]
    if k == 'maxlen':
        return _tlv(0x51, s[1], s[2].to_bytes(4, 'big'))
    if k == 'impl_uid':
        return _tlv(0x52, s[1], s[2].encode('ascii'))
    if k == 'impl_ver':
        return _tlv(0x55, s[1], s[2].encode('ascii'))
    if k == 'async':
        return _tlv(0x53, s[1], s[2].to_bytes(2, 'big') + s[3].to_bytes(2, 'big'))
    if k == 'role':
        u = s[2].encode('ascii')
        return _tlv(0x54, s[1], len(u).to_bytes(2, 'big') + u + bytes([s[3], s[4]]))
    if k == 'ext':
        u = s[2].encode('ascii')
        return _tlv(0x56, s[1], len(u).to_bytes(2, 'big') + u + s[3])
    if k == 'user_id':
        p, q = s[4].encode('utf8'), s[5].encode('utf8')
        return _tlv(0x58, s[1], bytes([s[2], s[3]]) + len(p).to_bytes(2, 'big') + p + len(q).to_bytes(2, 'big') + q)
    if k == 'user_id_ac':
        u = s[2].encode('ascii')
        return _tlv(0x59, s[1], len(u).to_bytes(2, 'big') + u)
    if k == 'generic':
        return _tlv(s[1], s[2], s[3])
    raise RefError('cannot encode %r' % (s,))


def _enc_sub(s):
    if s[0] == 'abs':
        return _tlv(0x30, s[1], s[2].encode('ascii'))
    if s[0] == 'ts':
        return _tlv(0x40, s[1], s[2].encode('ascii'))
    return _tlv(s[1], s[2], s[3])


def enc_item(it):
    k = it[0]
    if k == 'app':
        return _tlv(0x10, it[1], it[2].encode('ascii'))
    if k == 'pc_rq':
        return _tlv(0x20, it[1], bytes([it[2], it[3][0], it[3][1], it[3][2]]) + b''.join(_enc_sub(s) for s in it[4]))
    if k == 'pc_ac':
        return _tlv(0x21, it[1], bytes([it[2], it[3], it[4], it[5]]) + b''.join(_enc_sub(s) for s in it[6]))
    if k == 'user':
        return _tlv(0x50, it[1], b''.join(enc_sub_user(s) for s in it[2]))
    return _tlv(it[1], it[2], it[3])


def _pdu(t, r, body):
    return bytes([t, r]) + len(body).to_bytes(4, 'big') + body


def encode(p, pad=b' '):
    t = p['type']
    if t in (1, 2):
        r1, r2, r3 = p['reserved']
        called = p['called'].encode('ascii')
        calling = p['calling'].encode('ascii')
        body = (p['protocol_version'].to_bytes(2, 'big') + r2.to_bytes(2, 'big')
                + called + pad * (16 - len(called)) + calling + pad * (16 - len(calling)) + r3
                + b''.join(enc_item(i) for i in p['items']))
        return _pdu(t, r1, body)
    if t == 3:
        return _pdu(3, p['reserved'][0], bytes([p['reserved'][1], p['result'], p['source'], p['reason']]))
    if t == 4:
        body = b''.join((len(v) + 1).to_bytes(4, 'big') + bytes([cid]) + v for cid, v in p['pdvs'])
        return _pdu(4, p['reserved'], body)
    if t in (5, 6):
        return _pdu(t, p['reserved'][0], p['reserved'][1].to_bytes(4, 'big'))
    if t == 7:
        return _pdu(7, p['reserved'][0], bytes([p['reserved'][1], p['reserved'][2], p['source'], p['reason']]))
    raise RefError('cannot encode type %r' % (t,))
