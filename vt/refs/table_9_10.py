"""DICOM PS3.8 Table 9-10 (upper-layer state transition table) and the action definitions of Tables 9-6 .. 9-9,
transcribed from the standard.  No import from pynetdicom2.  States 1..13 and events 1..19 are numbered as in the
standard (the library numbers them from 0).

ACTION[a] = (send, indicate, close, timer, next)
  send     : None | 'primitive' (the PDU of the triggering request/response primitive) | 'A-RELEASE-RQ' |
             'A-RELEASE-RP' | 'A-ABORT' | 'A-ABORT-primitive-or-new'
  indicate : None | 'pdu' (the received PDU is handed to the user as indication/confirmation) | 'P-ABORT' (an abort
             indication is generated locally) | 'P-DATA' (P-DATA indication)
  close    : transport connection closed by this action
  timer    : None (untouched) | 'start' | 'stop' | 'restart' (start, or restart if already started)
  next     : next state, or a tuple for role-dependent (requestor, acceptor)
"""

ACTION = {
    'AE-1': (None, None, False, None, 4),          # issue TRANSPORT CONNECT request
    'AE-2': ('primitive', None, False, None, 5),   # send A-ASSOCIATE-RQ
    'AE-3': (None, 'pdu', False, None, 6),         # A-ASSOCIATE confirmation (accept)
    'AE-4': (None, 'pdu', True, None, 1),          # A-ASSOCIATE confirmation (reject), close
    'AE-5': (None, None, False, 'start', 2),       # transport connection response; start ARTIM
    'AE-6': (None, 'pdu', False, 'stop', 3),       # stop ARTIM; A-ASSOCIATE indication (acceptable request)
    'AE-7': ('primitive', None, False, None, 6),   # send A-ASSOCIATE-AC
    'AE-8': ('primitive', None, False, 'start', 13),   # send A-ASSOCIATE-RJ and start ARTIM
    'DT-1': ('primitive', None, False, None, 6),
    'DT-2': (None, 'P-DATA', False, None, 6),
    'AR-1': ('A-RELEASE-RQ', None, False, None, 7),
    'AR-2': (None, 'pdu', False, None, 8),
    'AR-3': (None, 'pdu', True, None, 1),
    'AR-4': ('A-RELEASE-RP', None, False, 'start', 13),
    'AR-5': (None, None, False, 'stop', 1),
    'AR-6': (None, 'P-DATA', False, None, 7),
    'AR-7': ('primitive', None, False, None, 8),
    'AR-8': (None, 'pdu', False, None, (9, 10)),   # release collision: requestor -> Sta9, acceptor -> Sta10
    'AR-9': ('A-RELEASE-RP', None, False, None, 11),
    'AR-10': (None, 'pdu', False, None, 12),
    'AA-1': ('A-ABORT-primitive-or-new', None, False, 'restart', 13),
    'AA-2': (None, None, True, 'stop', 1),
    'AA-3': (None, 'pdu', True, None, 1),
    'AA-4': (None, 'P-ABORT', False, None, 1),
    'AA-5': (None, None, False, 'stop', 1),
    'AA-6': (None, None, False, None, 13),
    'AA-7': ('A-ABORT', None, False, None, 13),
    'AA-8': ('A-ABORT', 'P-ABORT', False, 'start', 13),
}

_ALL_ASSOC = (3, 5, 6, 7, 8, 9, 10, 11, 12)       # states in which an unexpected PDU triggers AA-8


def _row(default_map, **special):
    return default_map


TABLE = {}


def _put(evt, mapping):
    for st, act in mapping.items():
        TABLE[(evt, st)] = act


def _unexpected(evt, expected):
    """Row of a received PDU: AA-1 in Sta2, AA-8 where unexpected, AA-6 in Sta13, `expected` overrides."""
    m = {2: 'AA-1', 13: 'AA-6'}
    for st in _ALL_ASSOC:
        m[st] = 'AA-8'
    m.update(expected)
    _put(evt, m)


_put(1, {1: 'AE-1'})
_put(2, {4: 'AE-2'})
_unexpected(3, {5: 'AE-3'})
_unexpected(4, {5: 'AE-4'})
_put(5, {1: 'AE-5'})
_unexpected(6, {2: 'AE-6', 13: 'AA-7'})
_put(7, {3: 'AE-7'})
_put(8, {3: 'AE-8'})
_put(9, {6: 'DT-1', 8: 'AR-7'})
_unexpected(10, {6: 'DT-2', 7: 'AR-6'})
_put(11, {6: 'AR-1'})
_unexpected(12, {6: 'AR-2', 7: 'AR-8'})
_unexpected(13, {7: 'AR-3', 10: 'AR-10', 11: 'AR-3'})
_put(14, {8: 'AR-4', 9: 'AR-9', 12: 'AR-4'})
def _merge(a, b):
    d = dict(a)
    d.update(b)
    return d


_put(15, _merge({3: 'AA-1', 4: 'AA-2'}, {st: 'AA-1' for st in (5, 6, 7, 8, 9, 10, 11, 12)}))
_put(16, _merge({2: 'AA-2', 13: 'AA-2'}, {st: 'AA-3' for st in _ALL_ASSOC}))
_put(17, _merge({2: 'AA-5', 4: 'AA-4', 13: 'AR-5'}, {st: 'AA-4' for st in _ALL_ASSOC}))
_put(18, {2: 'AA-2', 13: 'AA-2'})
_unexpected(19, {13: 'AA-7'})

assert len(TABLE) == 123, len(TABLE)


def lookup(evt, state):
    """Action name for (event 1..19, state 1..13) or None where the standard leaves the cell undefined."""
    return TABLE.get((evt, state))


def effect(evt, state, requestor):
    a = lookup(evt, state)
    if a is None:
        return None
    send, ind, close, timer, nxt = ACTION[a]
    if isinstance(nxt, tuple):
        nxt = nxt[0] if requestor else nxt[1]
    return a, send, ind, close, timer, nxt


# which PDU type (PS3.8 9.3: 1 RQ, 2 AC, 3 RJ, 4 P-DATA, 5 REL-RQ, 6 REL-RP, 7 ABORT) accompanies each event
# as the "current primitive": received PDU for PDU events, request/response primitive for user events
EVENT_PDU = {1: 1, 2: 1, 3: 2, 4: 3, 6: 1, 7: 2, 8: 3, 9: 4, 10: 4, 11: 5, 12: 5, 13: 6, 14: 6, 15: 7, 16: 7}
