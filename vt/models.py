"""Environment models (trusted base).  Pure Python so that CrossHair keeps values symbolic.

None of this touches /repo.  install() assigns module globals of the *imported* repo modules and registers
CrossHair patches; with VT_REPLAY=1 nothing here is installed and replays run on real struct / io.BytesIO.
"""
import struct as _struct

from . import api

# ----------------------------------------------------------------------------------------------
# struct.Struct.pack / unpack for big-endian standard-size formats
# ----------------------------------------------------------------------------------------------

_SIZES = {'B': 1, 'H': 2, 'I': 4, 'L': 4, 'b': 1, 'h': 2, 'i': 4, 'l': 4}
_SIGNED = {'b', 'h', 'i', 'l'}


def parse_format(fmt):
    """-> (byteorder, [(code, count)])  count>1 only for 's'."""
    if isinstance(fmt, bytes):
        fmt = fmt.decode('latin-1')
    fmt = fmt.strip()
    order = 'native'
    if fmt and fmt[0] in '@=<>!':
        order = {'@': 'native', '=': 'little', '<': 'little', '>': 'big', '!': 'big'}[fmt[0]]
        fmt = fmt[1:]
    items = []
    num = ''
    for ch in fmt:
        if ch.isspace():
            continue
        if ch.isdigit():
            num += ch
            continue
        n = int(num) if num else 1
        if ch == 's':
            items.append(('s', n))
        elif ch in _SIZES:
            items.extend([(ch, 1)] * n)
        else:
            raise api.HarnessUnsupported('struct format char %r' % ch)
        num = ''
    return order, items


_FORMAT_CACHE = {}


def _parsed(fmt):
    r = _FORMAT_CACHE.get(fmt)
    if r is None:
        order, items = parse_format(fmt)
        if order == 'native':
            # only single-byte native formats are modelled ('B', 'b', 'B B'): byte order irrelevant
            if any(c != 's' and _SIZES[c] != 1 for c, _ in items):
                raise api.HarnessUnsupported('native multi-byte struct format %r' % (fmt,))
            order = 'big'
        size = sum(n if c == 's' else _SIZES[c] for c, n in items)
        r = _FORMAT_CACHE[fmt] = (order, items, size)
    return r


def py_pack(fmt, *values):
    order, items, _ = _parsed(fmt)
    if len(values) != len(items):
        raise _struct.error('pack expected %d items for packing (got %d)' % (len(items), len(values)))
    out = []
    for (code, n), v in zip(items, values):
        if code == 's':
            if not isinstance(v, (bytes, bytearray)):
                raise _struct.error("argument for 's' must be a bytes object")
            ln = len(v)
            if ln >= n:
                out.append(v[:n])
            else:
                out.append(v + b'\0' * (n - ln))
        else:
            if not isinstance(v, int):
                raise _struct.error('required argument is not an integer')
            size = _SIZES[code]
            if code in _SIGNED:
                lo, hi = -(1 << (8 * size - 1)), (1 << (8 * size - 1)) - 1
                if not lo <= v <= hi:
                    raise _struct.error('argument out of range')
                out.append(v.to_bytes(size, order, signed=True))
            else:
                if not 0 <= v <= (1 << (8 * size)) - 1:
                    raise _struct.error('argument out of range')
                out.append(v.to_bytes(size, order))
    return b''.join(out)


def py_unpack(fmt, buf):
    order, items, size = _parsed(fmt)
    if len(buf) != size:
        raise _struct.error('unpack requires a buffer of %d bytes' % size)
    out = []
    off = 0
    for code, n in items:
        if code == 's':
            out.append(buf[off:off + n])
            off += n
        else:
            sz = _SIZES[code]
            out.append(int.from_bytes(buf[off:off + sz], order, signed=code in _SIGNED))
            off += sz
    return tuple(out)


def _struct_pack(self, *values):
    from crosshair.tracers import NoTracing
    with NoTracing():
        fmt = self.format
    return py_pack(fmt, *values)


def _struct_unpack(self, buf):
    from crosshair.tracers import NoTracing
    with NoTracing():
        fmt = self.format
    return py_unpack(fmt, buf)


# ----------------------------------------------------------------------------------------------
# io.BytesIO
# ----------------------------------------------------------------------------------------------

class PyBytesIO(object):
    """Pure-Python io.BytesIO: read, seek 0/1/2, tell, write, writelines, getvalue, close, truncate-free."""

    def __init__(self, initial=b''):
        self._buf = initial
        self._pos = 0
        self.closed = False

    def _chk(self):
        if self.closed:
            raise ValueError('I/O operation on closed file.')

    def read(self, n=-1):
        self._chk()
        if n is None or n < 0:
            r = self._buf[self._pos:]
        else:
            r = self._buf[self._pos:self._pos + n]
        self._pos += len(r)
        return r

    def seek(self, off, whence=0):
        self._chk()
        if whence == 0:
            if off < 0:
                raise ValueError('negative seek value %r' % (off,))
            self._pos = off
        elif whence == 1:
            self._pos = max(0, self._pos + off)
        elif whence == 2:
            self._pos = max(0, len(self._buf) + off)
        else:
            raise ValueError('invalid whence')
        return self._pos

    def tell(self):
        self._chk()
        return self._pos

    def write(self, data):
        self._chk()
        n = len(data)
        if n == 0:
            return 0
        cur = len(self._buf)
        pos = self._pos
        if pos == cur:
            self._buf = self._buf + data
        elif pos > cur:
            self._buf = self._buf + b'\0' * (pos - cur) + data
        else:
            self._buf = self._buf[:pos] + data + self._buf[pos + n:]
        self._pos = pos + n
        return n

    def writelines(self, lines):
        for line in lines:
            self.write(line)

    def getvalue(self):
        self._chk()
        return self._buf

    def getbuffer(self):
        return self._buf

    def close(self):
        self.closed = True

    def flush(self):
        self._chk()

    def fileno(self):
        import io
        raise io.UnsupportedOperation('fileno')

    def readable(self):
        return True

    def writable(self):
        return True

    def seekable(self):
        return True

    def __enter__(self):
        return self

    def __exit__(self, *a):
        self.close()


# ----------------------------------------------------------------------------------------------
# installation
# ----------------------------------------------------------------------------------------------

_installed = False


def install():
    """Install codec models into the imported repo modules.  No-op in replay mode."""
    global _installed
    if _installed or api.REPLAY:
        return
    _installed = True
    from crosshair.core import register_patch
    register_patch(_struct.Struct.pack, _struct_pack)
    register_patch(_struct.Struct.unpack, _struct_unpack)
    from pynetdicom2 import pdu, dsutils
    import pydicom.filebase
    pdu.cStringIO = PyBytesIO
    dsutils.cStringIO = PyBytesIO
    pydicom.filebase.BytesIO = PyBytesIO
