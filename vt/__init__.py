"""Solver-based checking of pynetdicom2 (/repo) -- see /verif/DESIGN.md."""
import os
import sys

VERIF = os.path.dirname(os.path.dirname(os.path.abspath(__file__)))
REPO = os.environ.get('VT_REPO', '/repo')


def use_repo():
    """Make `import pynetdicom2` resolve to the working tree under analysis (never the stale site-packages copy)."""
    repo = os.path.abspath(REPO)
    if sys.path[0] != repo:
        sys.path.insert(0, repo)
    for name in list(sys.modules):
        if name == 'pynetdicom2' or name.startswith('pynetdicom2.'):
            mod = sys.modules[name]
            f = getattr(mod, '__file__', '') or ''
            if not os.path.abspath(f).startswith(repo + os.sep):
                del sys.modules[name]
    import pynetdicom2
    assert os.path.abspath(pynetdicom2.__file__).startswith(repo + os.sep), pynetdicom2.__file__
    return repo
