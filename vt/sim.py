"""Deterministic stand-ins for socket / select / clock / queue as seen by dulprovider.py and fsm.py, and a
DULServiceProvider that is stepped in the calling thread (start() does nothing)."""
import collections

import vt
vt.use_repo()
from vt import api


def _no_tracing():
    if api.REPLAY:
        import contextlib
        return contextlib.nullcontext()
    from crosshair.tracers import NoTracing
    return NoTracing()


class SimQueue(object):
    """queue.Queue stand-in (single-threaded): get on empty raises queue.Empty immediately."""

    on_put = None

    def __init__(self, maxsize=0):
        self.items = collections.deque()
        self.log = []           # everything ever put
        self.maxsize = maxsize  # as queue.Queue: 0 = unbounded

    def put(self, item, block=True, timeout=None):
        if self.maxsize and len(self.items) >= self.maxsize:
            from six.moves import queue
            if not block or timeout is not None:
                raise queue.Full()
            raise api.Hang('put() on a full queue that nobody reads blocks for ever')
        if self.on_put is not None:
            self.on_put(item)        # what the item looks like at the moment it becomes visible to the other thread
        self.items.append(item)
        self.log.append(item)

    def get(self, block=True, timeout=None):
        from six.moves import queue
        if not self.items:
            raise queue.Empty()
        return self.items.popleft()

    def get_nowait(self):
        return self.get(False)

    def empty(self):
        return not self.items

    def qsize(self):
        return len(self.items)


class SimSocket(object):
    """socket.socket stand-in.

    script: list of segments handed out by recv() in order; after the script: b'' if peer_closed else Hang.
    A segment may be any bytes-like stand-in (AbsBytes).  sent: list of everything passed to sendall().
    """

    def __init__(self, script=None, peer_closed=False, recv_error=False):
        self.script = collections.deque(script or [])
        self.peer_closed = peer_closed
        self.recv_error = recv_error
        self.sent = []
        self.closed = False
        self.connected_to = None
        self.recv_calls = 0
        self.peer_reset = False      # the peer has reset the connection (RST): what was received before can still be read

    # -- receiving side
    def readable(self):
        return bool(self.script) or self.peer_closed or self.recv_error

    def recv(self, n, flags=0):
        import socket as _socket
        self.recv_calls += 1
        if self.closed:
            raise _socket.error('recv on closed socket')
        if flags & _socket.MSG_WAITALL:
            return wait_all(self, n)
        if self.script:
            seg = self.script.popleft()
            ln = len(seg)
            if ln > n:
                self.script.appendleft(seg[n:])
                seg = seg[:n]
            return seg
        if self.recv_error:
            raise _socket.error('connection reset')
        if self.peer_closed:
            return b''
        raise api.Hang('recv() on an open connection with a silent peer would block forever')

    # -- sending side
    def sendall(self, data):
        import errno
        import socket as _socket
        if self.closed:
            raise _socket.error('send on closed socket')
        if self.peer_reset:
            raise _socket.error(errno.ECONNRESET, 'Connection reset by peer')
        self.sent.append(data)

    def connect(self, addr):
        self.connected_to = addr

    def shutdown(self, how):
        import errno
        import socket as _socket
        if self.closed:
            raise _socket.error(errno.EBADF, 'shutdown on closed socket')
        if self.peer_reset:
            raise _socket.error(errno.ENOTCONN, 'Transport endpoint is not connected')

    def close(self):
        self.closed = True

    def fileno(self):
        return 3

    def __bool__(self):
        return True


def wait_all(sock, n):
    """recv(n, MSG_WAITALL): returns only when n bytes are there (or the peer closed): on a connection whose peer
    has sent less and stays silent it blocks for ever"""
    got = b''
    while len(got) < n:
        part = sock.recv(n - len(got))       # the plain recv of the same stand-in: raises Hang when nothing comes
        if not part:
            break
        got = got + part
    return got


class SimSelect(object):
    """`select` module stand-in: a socket is readable iff its script has data / the peer closed."""
    error = OSError

    def __init__(self):
        self.calls = 0

    def select(self, r, w, x, timeout=None):
        self.calls += 1
        return [s for s in r if s.readable()], [], []


class SimClock(object):
    """`time` module stand-in: time() returns the current (possibly symbolic) instant; advance() moves it."""

    def __init__(self, now=1000):
        self.now = now
        self.calls = 0

    def time(self):
        self.calls += 1
        return self.now

    def sleep(self, dt):
        self.now = self.now + dt


class RecTimer(object):
    """Timer stand-in that records operations (used where the ARTIM *clock* is not the subject)."""

    def __init__(self, running=False):
        self.running = running
        self.ops = []

    def start(self):
        self.ops.append('start')
        self.running = True

    def stop(self):
        self.ops.append('stop')
        self.running = False

    def restart(self):
        self.ops.append('restart')
        self.running = True

    def check(self):
        return True


class SocketModule(object):
    """`socket` module stand-in for fsm.py (AE-1 opens a connection)."""
    AF_INET = 2
    SOCK_STREAM = 1
    error = OSError

    def __init__(self):
        self.created = []
        self.default_timeout = None     # process-wide default of new sockets (socket.setdefaulttimeout)

    def __getattr__(self, name):
        # constants and exception classes of the real module (SHUT_RDWR, MSG_PEEK, timeout ...); functions are not modelled
        import socket as _s
        v = getattr(_s, name)
        if callable(v) and not isinstance(v, type):
            raise AttributeError('socket.%s is not modelled by the transport stand-in' % name)
        return v

    def setdefaulttimeout(self, t):
        self.default_timeout = t

    def getdefaulttimeout(self):
        return self.default_timeout

    def socket(self, *a):
        s = SimSocket()
        self.created.append(s)
        return s


def make_provider(sock=None, store_in_file=frozenset(), get_file_cb=None, max_pdu_length=65536):
    """A real DULServiceProvider whose thread is never started; queues replaced by SimQueue."""
    from pynetdicom2 import dulprovider

    class SteppedProvider(dulprovider.DULServiceProvider):
        def start(self):
            pass

    with _no_tracing():
        prov = SteppedProvider(store_in_file, get_file_cb, sock, max_pdu_length)
        prov.to_service_user = SimQueue(getattr(prov.to_service_user, 'maxsize', 0))
        prov.from_service_user = SimQueue(getattr(prov.from_service_user, 'maxsize', 0))
    return prov
