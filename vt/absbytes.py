"""Length-only abstractions of byte strings.

LenSeq  -- a data set of which only the length matters: supports len, truth, slicing, bytes + LenSeq, LenSeq + the piece
           that follows it; remembers the
           offset of every slice in the original so that contiguity/coverage can be asserted.  Lengths and offsets
           may be symbolic integers of unbounded magnitude.
AbsBytes -- a window [start, stop) of a *concrete* byte stream whose only symbolic parts are the window bounds (how
           much has arrived); supports exactly what dulprovider does with received data.
Any other use raises HarnessUnsupported (-> inconclusive, never a verdict).
"""
from . import api


def _concrete_int(x):
    if api.REPLAY:
        return True
    from crosshair.tracers import NoTracing
    with NoTracing():
        return type(x) is int


def _min(a, b):
    return a if a <= b else b


def _max(a, b):
    return a if a >= b else b


class LenSeq(bytes):
    """bytes stand-in: `prefix` (real bytes) followed by `n` abstract bytes taken from offset `off` of source `src`."""

    def __new__(cls, n, off=0, src='data', prefix=b''):
        self = bytes.__new__(cls, b'')
        self.n = n
        self.off = off
        self.src = src
        self.prefix = prefix
        return self

    def __len__(self):
        return len(self.prefix) + self.n

    def __bool__(self):
        if len(self.prefix) + self.n > 0:
            return True
        return False

    def __getitem__(self, key):
        if isinstance(key, slice):
            if self.prefix:
                if key.step is None and key.start == 1 and key.stop is None and len(self.prefix) == 1:
                    return LenSeq(self.n, self.off, self.src)
                raise api.HarnessUnsupported('slice of prefixed LenSeq')
            if key.step is not None:
                raise api.HarnessUnsupported('LenSeq step slice')
            start = 0 if key.start is None else key.start
            stop = self.n if key.stop is None else key.stop
            if start < 0 or stop < 0:
                raise api.HarnessUnsupported('negative LenSeq slice')
            start = _min(start, self.n)
            stop = _min(stop, self.n)
            ln = stop - start
            if ln < 0:
                ln = 0
            return LenSeq(ln, self.off + start, self.src)
        if self.prefix and _concrete_int(key) and 0 <= key < len(self.prefix):
            return self.prefix[key]
        raise api.HarnessUnsupported('LenSeq index')

    def __add__(self, other):
        # two pieces of the same source that follow each other (a byte read ahead and carried over + the next read)
        if isinstance(other, LenSeq) and not other.prefix and other.src == self.src:
            if self.off + self.n == other.off:
                return LenSeq(self.n + other.n, self.off, self.src, prefix=self.prefix)
            if other.n == 0:
                return self
            if self.n == 0 and not self.prefix:
                return other
        raise api.HarnessUnsupported('LenSeq + x')

    def __radd__(self, other):
        if isinstance(other, LenSeq) or not isinstance(other, bytes) or self.prefix:
            raise api.HarnessUnsupported('x + LenSeq')
        return LenSeq(self.n, self.off, self.src, prefix=other)

    def __eq__(self, other):
        raise api.HarnessUnsupported('LenSeq ==')

    def __hash__(self):
        return id(self)

    def __iter__(self):
        raise api.HarnessUnsupported('iter(LenSeq)')

    def __repr__(self):
        return 'LenSeq(n=%r, off=%r, src=%r, prefix=%r)' % (self.n, self.off, self.src, self.prefix)


class LenFile(object):
    """Seekable binary file of `total` abstract bytes: read(n), read(1), seek(-1, 1), close()."""

    def __init__(self, total, src='data'):
        self.total = total
        self.pos = 0
        self.src = src
        self.closed = False
        self.reads = 0

    def read(self, n=-1):
        if self.closed:
            raise ValueError('I/O operation on closed file.')
        self.reads += 1
        left = self.total - self.pos
        if n is None or n < 0:
            k = left
        else:
            k = _min(n, left)
        r = LenSeq(k, self.pos, self.src)
        self.pos = self.pos + k
        return r

    def seek(self, off, whence=0):
        if self.closed:
            raise ValueError('I/O operation on closed file.')
        if whence == 0:
            self.pos = off
        elif whence == 1:
            self.pos = _max(0, self.pos + off)
        else:
            self.pos = _max(0, self.total + off)
        return self.pos

    def tell(self):
        return self.pos

    def close(self):
        self.closed = True


class StreamBytes(bytes):
    """Real bytes that remember which piece [start, stop) of which stream they are (both bounds concrete)."""

    def __new__(cls, stream, start, stop):
        self = bytes.__new__(cls, stream[start:stop])
        self.stream = stream
        self.start = start
        self.stop = stop
        return self

    def __add__(self, other):
        if isinstance(other, AbsBytes):
            return other.__radd__(self)
        if isinstance(other, StreamBytes) and other.stream is self.stream and other.start == self.stop:
            return StreamBytes(self.stream, self.start, other.stop)
        return bytes.__add__(self, other)

    def __radd__(self, other):
        if isinstance(other, bytes) and len(other) == 0:
            return self
        return bytes.__add__(other, self)

    def __getitem__(self, key):
        if isinstance(key, slice) and key.step is None:
            n = self.stop - self.start
            a, b, _ = key.indices(n)
            if b < a:
                b = a
            return StreamBytes(self.stream, self.start + a, self.start + b)
        return bytes.__getitem__(self, key)


class AbsBytes(object):
    """Window [start, stop) of a concrete stream; bounds may be symbolic.  Supports +, +=, len, truth, [a:b], [i]."""

    def __init__(self, stream, start, stop):
        self.stream = stream
        self.start = start
        self.stop = stop

    def __len__(self):
        return self.stop - self.start

    def __bool__(self):
        if self.stop - self.start > 0:
            return True
        return False

    def __add__(self, other):
        if isinstance(other, StreamBytes):
            other = AbsBytes(other.stream, other.start, other.stop)
        if isinstance(other, bytes) and not isinstance(other, LenSeq):
            if len(other) == 0:
                return self
            if len(self) == 0:
                return other
            raise api.HarnessUnsupported('AbsBytes + non-empty bytes')
        if not isinstance(other, AbsBytes):
            raise api.HarnessUnsupported('AbsBytes + foreign')
        if len(other) == 0:
            return self
        if other.stream is not self.stream:
            if len(self) == 0:
                return other
            raise api.HarnessUnsupported('AbsBytes + window of another stream')
        if other.start != self.stop:
            if len(self) == 0:
                return other
            raise api.HarnessUnsupported('AbsBytes + non-adjacent window')
        # adjacent (also when self is empty): keep self.start, which is the determined one after a PDU was sliced off
        return AbsBytes(self.stream, self.start, other.stop)

    def __radd__(self, other):
        if isinstance(other, bytes) and len(other) == 0:
            return self
        if isinstance(other, StreamBytes) and other.stream is self.stream:
            return AbsBytes(other.stream, other.start, other.stop).__add__(self)
        raise api.HarnessUnsupported('bytes + AbsBytes')

    def __getitem__(self, key):
        ln = self.stop - self.start
        if isinstance(key, slice):
            if key.step is not None:
                raise api.HarnessUnsupported('AbsBytes step')
            a = 0 if key.start is None else key.start
            b = ln if key.stop is None else key.stop
            if a < 0 or b < 0:
                raise api.HarnessUnsupported('AbsBytes negative slice')
            a = _min(a, ln)
            b = _min(b, ln)
            if b < a:
                b = a
            lo, hi = self.start + a, self.start + b
            if key.stop is not None and _concrete_int(lo) and _concrete_int(hi):
                return StreamBytes(self.stream, lo, hi)   # a fully determined piece of the stream: real bytes
            return AbsBytes(self.stream, lo, hi)
        if key < 0 or key >= ln:
            raise IndexError('index out of range')
        return self.concrete_at(self.start + key)

    def concrete_at(self, pos):
        if not _concrete_int(pos):
            raise api.HarnessUnsupported('symbolic position into the stream')
        return self.stream[pos]

    def tobytes(self):
        """Concrete bytes of the window; only legal when both bounds are concrete."""
        if not (_concrete_int(self.start) and _concrete_int(self.stop)):
            raise api.HarnessUnsupported('AbsBytes.tobytes with symbolic bounds')
        return self.stream[self.start:self.stop]

    def __eq__(self, other):
        if isinstance(other, bytes):
            if len(other) == 0:
                return len(self) == 0
            raise api.HarnessUnsupported('AbsBytes == bytes')
        return NotImplemented

    def __ne__(self, other):
        r = self.__eq__(other)
        return r if r is NotImplemented else not r

    __hash__ = None

    def __repr__(self):
        return 'AbsBytes[%r:%r]' % (self.start, self.stop)
