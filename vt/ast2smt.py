"""E3 -- a direct SMT lemma for the one loop whose trip count grows with the input: dimsemessages.chunks (used by
fragment / fragment_file / DIMSEMessage.encode).

The generator expression and the `maxsize` computations are taken from the AST of the *current* source of
/repo/pynetdicom2/dimsemessages.py and translated into SMT-LIB2 integer terms (Python int -> Int).  The negated
inductive-step claim is handed to two solver binaries (z3 -in, cvc5); `unsat` from both = the step holds for
every length, size and loop position (no bound on the number of fragments); `sat` = a concrete (L, size, pos) that is
then replayed on the real function by the condition body.  Anything else (unexpected AST shape, `unknown`, an
`(error` line, disagreement) = not applicable / inconclusive - never a verdict.
"""
import ast
import os
import shutil
import subprocess
import tempfile
import time

import vt


class Shape(Exception):
    """the source no longer has the shape this translator understands"""


def _term(node, env):
    """integer / boolean Python expression -> SMT-LIB term"""
    if isinstance(node, ast.Constant) and isinstance(node.value, int) and not isinstance(node.value, bool):
        return str(node.value) if node.value >= 0 else '(- %d)' % -node.value
    if isinstance(node, ast.Name):
        if node.id in env:
            return env[node.id]
        raise Shape('unknown name %r' % node.id)
    if isinstance(node, ast.BinOp) and isinstance(node.op, (ast.Add, ast.Sub)):
        return '(%s %s %s)' % ('+' if isinstance(node.op, ast.Add) else '-', _term(node.left, env),
                               _term(node.right, env))
    if isinstance(node, ast.UnaryOp) and isinstance(node.op, ast.USub):
        return '(- %s)' % _term(node.operand, env)
    if isinstance(node, ast.Call) and isinstance(node.func, ast.Name) and node.func.id == 'len' and len(node.args) == 1:
        a = node.args[0]
        if isinstance(a, ast.Name) and ('len:' + a.id) in env:
            return env['len:' + a.id]
        raise Shape('len() of something else')
    if isinstance(node, ast.Attribute) and isinstance(node.value, ast.Attribute) and node.attr == 'size':
        # e.g. pdu.PresentationDataValueItem.header.size : evaluated on the real class
        from pynetdicom2 import pdu as _pdu
        obj = node.value
        parts = []
        while isinstance(obj, ast.Attribute):
            parts.append(obj.attr)
            obj = obj.value
        if isinstance(obj, ast.Name) and obj.id == 'pdu':
            o = _pdu
            for p in reversed(parts):
                o = getattr(o, p)
            return str(int(o.size))
        raise Shape('attribute chain')
    if isinstance(node, ast.Compare) and len(node.ops) == 1:
        op = {ast.Lt: '<', ast.LtE: '<=', ast.Gt: '>', ast.GtE: '>=', ast.Eq: '='}.get(type(node.ops[0]))
        if op is None:
            raise Shape('comparison operator')
        return '(%s %s %s)' % (op, _term(node.left, env), _term(node.comparators[0], env))
    if isinstance(node, ast.BoolOp):
        return '(%s %s)' % ('and' if isinstance(node.op, ast.And) else 'or', ' '.join(_term(v, env) for v in node.values))
    if isinstance(node, ast.UnaryOp) and isinstance(node.op, ast.Not):
        return '(not %s)' % _term(node.operand, env)
    raise Shape('expression %s' % ast.dump(node)[:80])


def extract(source):
    """-> dict(lower, upper, flag, r_start, r_stop, r_step, maxsize_fragment, maxsize_file) as SMT terms over L, S, P, M"""
    tree = ast.parse(source)
    fns = {n.name: n for n in tree.body if isinstance(n, ast.FunctionDef)}
    if 'chunks' not in fns or 'fragment' not in fns or 'fragment_file' not in fns:
        raise Shape('functions missing')
    ch = fns['chunks']
    args = [a.arg for a in ch.args.args]
    if len(args) != 2:
        raise Shape('chunks signature')
    seq, size = args
    env = {size: 'S', 'len:' + seq: 'L'}
    gen = None
    for st in ch.body:
        if isinstance(st, ast.Assign) and len(st.targets) == 1 and isinstance(st.targets[0], ast.Name):
            env[st.targets[0].id] = _term(st.value, env)
        elif isinstance(st, ast.Return) and isinstance(st.value, ast.GeneratorExp):
            gen = st.value
        elif isinstance(st, ast.Expr) and isinstance(st.value, ast.Constant):
            continue
        else:
            raise Shape('statement in chunks')
    if gen is None or len(gen.generators) != 1 or gen.generators[0].ifs:
        raise Shape('generator')
    comp = gen.generators[0]
    if not (isinstance(comp.target, ast.Name) and isinstance(comp.iter, ast.Call)
            and isinstance(comp.iter.func, ast.Name) and comp.iter.func.id == 'range' and len(comp.iter.args) == 3):
        raise Shape('range(...)')
    env2 = dict(env)
    env2[comp.target.id] = 'P'
    r_start, r_stop, r_step = [_term(a, env) for a in comp.iter.args]
    elt = gen.elt
    if not (isinstance(elt, ast.Tuple) and len(elt.elts) == 2 and isinstance(elt.elts[0], ast.Subscript)):
        raise Shape('element tuple')
    sub = elt.elts[0]
    if not (isinstance(sub.value, ast.Name) and sub.value.id == seq and isinstance(sub.slice, ast.Slice)
            and sub.slice.step is None and sub.slice.lower is not None and sub.slice.upper is not None):
        raise Shape('slice')
    out = dict(lower=_term(sub.slice.lower, env2), upper=_term(sub.slice.upper, env2), flag=_term(elt.elts[1], env2),
               r_start=r_start, r_stop=r_stop, r_step=r_step)
    out['_nodes'] = dict(lower=sub.slice.lower, upper=sub.slice.upper, flag=elt.elts[1], range=comp.iter.args,
                         pos=comp.target.id, size=size, seq=seq,
                         assigns=[(st.targets[0].id, st.value) for st in ch.body if isinstance(st, ast.Assign)])
    for name in ('fragment', 'fragment_file'):
        fn = fns[name]
        params = [a.arg for a in fn.args.args]
        envf = {params[1]: 'M'}
        found = None
        for st in fn.body:
            if isinstance(st, ast.Assign) and len(st.targets) == 1 and isinstance(st.targets[0], ast.Name) \
                    and st.targets[0].id == 'maxsize':
                found = _term(st.value, envf)
        if found is None:
            raise Shape('maxsize in %s' % name)
        out['maxsize_' + name] = found
    return out


def _ev(node, env):
    """Python evaluation of the same expression subset (used to validate the translator)"""
    if isinstance(node, ast.Constant):
        return node.value
    if isinstance(node, ast.Name):
        return env[node.id]
    if isinstance(node, ast.BinOp):
        a, b = _ev(node.left, env), _ev(node.right, env)
        return a + b if isinstance(node.op, ast.Add) else a - b
    if isinstance(node, ast.UnaryOp) and isinstance(node.op, ast.USub):
        return -_ev(node.operand, env)
    if isinstance(node, ast.UnaryOp) and isinstance(node.op, ast.Not):
        return not _ev(node.operand, env)
    if isinstance(node, ast.Call):
        return env['len:' + node.args[0].id]
    if isinstance(node, ast.Compare):
        a, b = _ev(node.left, env), _ev(node.comparators[0], env)
        return {ast.Lt: a < b, ast.LtE: a <= b, ast.Gt: a > b, ast.GtE: a >= b, ast.Eq: a == b}[type(node.ops[0])]
    if isinstance(node, ast.BoolOp):
        vals = [_ev(v, env) for v in node.values]
        return all(vals) if isinstance(node.op, ast.And) else any(vals)
    raise Shape('eval')


def validate(terms, extra=()):
    """The translator's reading of the source must predict what the real chunks() does, on a boundary grid (and on the
    solver's own models): same positions, same slice bounds after clamping, same flags."""
    from pynetdicom2 import dimsemessages as dm
    nd = terms['_nodes']
    grid = [(L, S) for L in (1, 2, 3, 5, 6, 7, 12, 13) for S in (1, 2, 3, 6, 7, 40)] + list(extra)
    for L, S in grid:
        if L < 0 or S < 1 or L > 200000:
            continue
        data = bytes(i % 251 for i in range(L))
        real = list(dm.chunks(data, S))
        env = {nd['size']: S, 'len:' + nd['seq']: L}
        for name, val in nd['assigns']:
            env[name] = _ev(val, env)
        pred = []
        for pos in range(*[_ev(a, env) for a in nd['range']]):
            env[nd['pos']] = pos
            lo, hi = _ev(nd['lower'], env), _ev(nd['upper'], env)
            pred.append((data[lo:hi], bool(_ev(nd['flag'], env))))
        if [(c, bool(f)) for c, f in real] != pred:
            return False
    return True


def script(t):
    """SMT-LIB2: one (check-sat) per obligation, each under push/pop; all must be unsat"""
    clamp = '(define-fun clamp ((x Int) (n Int)) Int (ite (< x 0) (ite (< (+ x n) 0) 0 (+ x n)) (ite (> x n) n x)))'
    hdr = ['(set-logic QF_LIA)', clamp,
           '(declare-const L Int) (declare-const S Int) (declare-const P Int) (declare-const M Int)',
           # an arbitrary position of the loop `for P in range(r_start, r_stop, r_step)` with a positive step
           '(define-fun lo () Int (clamp %s L))' % t['lower'],
           '(define-fun hi () Int (clamp %s L))' % t['upper'],
           '(define-fun clen () Int (ite (> hi lo) (- hi lo) 0))',
           '(define-fun inloop () Bool (and (>= L 1) (>= S 1) (>= P %s) (< P %s) (>= %s 1)))' % (
               t['r_start'], t['r_stop'], t['r_step']),
           '(define-fun nextpos () Int (+ P %s))' % t['r_step'],
           '(define-fun yields_again () Bool (< nextpos %s))' % t['r_stop']]
    obligations = [
        ('chunk is non-empty and at most `size` long', '(and inloop (not (and (>= clen 1) (<= clen S))))'),
        ('chunk starts at the loop position', '(and inloop (not (= lo P)))'),
        ('has_next flag <=> the loop yields again', '(and inloop (not (= %s yields_again)))' % t['flag']),
        ('a chunk that is not the last is followed contiguously', '(and inloop yields_again (not (= hi nextpos)))'),
        ('the last chunk ends at the end of the data', '(and inloop (not yields_again) (not (= hi L)))'),
        ('the loop covers the data: it starts at 0 and stops at len', '(not (and (= %s 0) (= %s L)))' % (
            t['r_start'], t['r_stop'])),
        ('the step is the chunk size', '(not (= %s S))' % t['r_step']),
        ('fragment(): payload + 6 bytes of PDV/PDU overhead fits the maximum', '(and (>= M 7) (not (and (>= %s 1) '
         '(<= (+ %s 6) M))))' % (t['maxsize_fragment'], t['maxsize_fragment'])),
        ('fragment_file(): same', '(and (>= M 7) (not (and (>= %s 1) (<= (+ %s 6) M))))' % (
            t['maxsize_fragment_file'], t['maxsize_fragment_file'])),
    ]
    lines = list(hdr)
    for name, neg in obligations:
        lines += ['(push 1)', '(assert %s)' % neg, '(check-sat)', '(get-value (L S P M))', '(pop 1)']
    return '\n'.join(lines) + '\n', [n for n, _ in obligations]


def _parse(out, n):
    """-> list of (verdict, model dict or None) per obligation, or None if the output is not trustworthy"""
    if '(error' in out and 'model is not available' not in out and 'cannot get value' not in out.lower():
        pass
    res = []
    toks = out.replace('\r', '').split('\n')
    i = 0
    cur = None
    import re
    for line in toks:
        s = line.strip()
        if s in ('sat', 'unsat', 'unknown'):
            if cur is not None:
                res.append(cur)
            cur = [s, None]
        elif cur is not None and cur[0] == 'sat' and 'L' in s:
            vals = dict(re.findall(r'\(([LSPM]) (\(- \d+\)|-?\d+)\)', out[out.find(s):out.find(s) + 400]))
            cur[1] = {k: int(v.replace('(- ', '-').replace(')', '')) for k, v in vals.items()}
    if cur is not None:
        res.append(cur)
    if len(res) != n:
        return None
    return res


def run_solvers(text):
    outs = {}
    t0 = time.time()
    z3 = shutil.which('z3')
    if z3:
        p = subprocess.run([z3, '-in'], input=text, capture_output=True, text=True, timeout=120)
        outs['z3'] = p.stdout
    cvc5 = shutil.which('cvc5')
    if cvc5:
        with tempfile.NamedTemporaryFile('w', suffix='.smt2', delete=False) as f:
            f.write(text)
            name = f.name
        try:
            p = subprocess.run([cvc5, '--incremental', '--produce-models', name], capture_output=True, text=True,
                               timeout=120)
            outs['cvc5'] = p.stdout
        finally:
            os.remove(name)
    return outs, time.time() - t0


def lemma():
    """-> dict(status: confirmed | refuted | not_applicable | inconclusive, message, args, queries, seconds, solvers)"""
    repo = vt.use_repo()
    path = os.path.join(repo, 'pynetdicom2', 'dimsemessages.py')
    try:
        terms = extract(open(path).read())
    except Shape as e:
        return dict(status='not_applicable', message='AST shape not understood (%s): E1 verdict stands alone' % e,
                    args=None, queries=0, seconds=0.0, solvers=[])
    if not validate(terms):
        return dict(status='inconclusive', message='translator validation failed: the reading of the AST does not '
                    'predict the real chunks() on the boundary grid', args=None, queries=0, seconds=0.0, solvers=[])
    text, names = script(terms)
    outs, secs = run_solvers(text)
    parsed = {k: _parse(v, len(names)) for k, v in outs.items()}
    if not parsed or any(v is None for v in parsed.values()):
        return dict(status='inconclusive', message='solver output not understood: %r' % {k: v[:200] for k, v in outs.items()},
                    args=None, queries=0, seconds=secs, solvers=sorted(outs))
    verdicts = {k: [r[0] for r in v] for k, v in parsed.items()}
    first = list(verdicts.values())[0]
    if any(v != first for v in verdicts.values()) or 'unknown' in first:
        return dict(status='inconclusive', message='solvers disagree or answered unknown: %r' % verdicts, args=None,
                    queries=len(names) * len(outs), seconds=secs, solvers=sorted(outs))
    for i, v in enumerate(first):
        if v == 'sat':
            model = None
            for k in parsed:
                model = model or parsed[k][i][1]
            return dict(status='refuted', message='obligation "%s" fails' % names[i], args=model, obligation=names[i],
                        queries=len(names) * len(outs), seconds=secs, solvers=sorted(outs))
    return dict(status='confirmed', message='%d obligations unsat in %s' % (len(names), ' and '.join(sorted(outs))),
                args=None, queries=len(names) * len(outs), seconds=secs, solvers=sorted(outs),
                obligations=names)
