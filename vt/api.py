"""Harness-side API: condition registry, family parameters, reach markers.

A *condition* is a plain function with a PEP-316 docstring (``pre:`` lines = validity predicate + bounds,
``post: _``) returning True iff the independent oracle agrees with what the real code did.  Called with
concrete arguments it is its own replay.
"""
import os

REPLAY = os.environ.get('VT_REPLAY') == '1'

_REACH = False          # set by the worker when running the reachability twin
_FAM = {}               # concrete family parameters of the current condition instance
_TIER = os.environ.get('VERIF_TIER', 'quick')


class ReachWitness(Exception):
    """Raised by deep() in reach mode: a path got to the deep point (vacuity guard)."""


class HarnessUnsupported(Exception):
    """An abstraction was used in a way it does not model -> inconclusive, never a verdict."""


class Hang(BaseException):
    """A blocking call that would never return (peer silent, socket open)."""


_EXCL = []              # names of known-finding predicates excluded from the current analysis (set by the worker)


def excluded(module_globals, *args):
    """True iff the arguments fall under a *listed, still reproducing* known finding of this condition.

    A condition that has known findings carries `pre: not excluded(<its args>)`; everything else stays in scope, so a
    different violation of the same condition is still found."""
    for name in _EXCL:
        if module_globals[name](*args):
            return True
    return False


def pick(x, lo, hi):
    """A *concrete* int equal to the (possibly symbolic) small selector x in lo..hi: forks once per value.

    Slicing / indexing concrete sequences with a symbolic int makes CrossHair build symbolic containers (orders of
    magnitude slower); selectors that are enumerated anyway are therefore made concrete up front."""
    for v in range(lo, hi + 1):
        if x == v:
            return v
    raise HarnessUnsupported('pick(%r) outside %d..%d' % (x, lo, hi))


def deep(fact=True):
    """Mark a deep point of the harness; in reach mode reaching it with `fact` true ends the path as witness."""
    if _REACH and fact:
        raise ReachWitness()
    return True


def fam(name=None, default=None):
    if name is None:
        return _FAM
    return _FAM.get(name, default)


def tier():
    return _TIER


class Cond(object):
    def __init__(self, fn, meta):
        self.fn = fn
        self.name = fn.__name__
        self.meta = meta

    def instances(self, tier_name):
        fam_spec = self.meta.get('family')
        if callable(fam_spec):
            fam_spec = fam_spec(tier_name)
        if not fam_spec:
            return [{}]
        if isinstance(fam_spec, list):
            return fam_spec
        # dict name -> iterable of values: cartesian product
        out = [{}]
        for k, vals in fam_spec.items():
            out = [dict(d, **{k: v}) for d in out for v in vals]
        return out


def cond(bounds='', family=None, timeout=None, thorough_timeout=None, reach=True, tiers=('quick', 'thorough'),
         outside='', engine='crosshair'):
    """Register a condition.

    bounds  -- human-readable statement of what is symbolic and in which range
    family  -- dict/list/callable(tier) giving concrete selector tuples; one condition instance per tuple
    timeout -- per-instance CrossHair budget (seconds, quick tier); thorough_timeout for the thorough tier
    reach   -- run the reachability twin (deep() markers must exist in the body)
    """
    def deco(fn):
        reg = fn.__globals__.setdefault('__conds__', [])
        reg.append(Cond(fn, dict(bounds=bounds, family=family, timeout=timeout,
                                 thorough_timeout=thorough_timeout, reach=reach, tiers=tiers, outside=outside,
                                 engine=engine)))
        return fn
    return deco


class ModuleState(object):
    """Snapshot of the plain dict / list / set globals of a module, restorable at the start of every execution.

    Code under analysis must start every symbolic execution from the same state; a cache or memo added to a module
    (hidden state) would otherwise leak between paths (CrossHair: NotDeterministic).  restore() also puts back
    containers that were rebound and empties containers that did not exist at snapshot time."""

    def __init__(self, module, skip=()):
        self.module = module
        self.skip = set(skip)
        self.snap = {}
        for k, v in vars(module).items():
            if k.startswith('__') or k in self.skip:
                continue
            if type(v) in (dict, list, set):
                self.snap[k] = (v, type(v)(v))

    def restore(self):
        for k, v in list(vars(self.module).items()):
            if k.startswith('__') or k in self.skip:
                continue
            if k in self.snap:
                obj, copy = self.snap[k]
                if type(obj) is dict:
                    obj.clear()
                    obj.update(copy)
                elif type(obj) is list:
                    obj[:] = copy
                else:
                    obj.clear()
                    obj.update(copy)
                if vars(self.module).get(k) is not obj and type(vars(self.module).get(k)) in (dict, list, set):
                    setattr(self.module, k, obj)
            elif type(v) in (dict, list, set):
                v.clear()


class ClassState(object):
    """The same for class-level containers (dict / list / set attributes of the classes defined in a module): a decode
    cache or registry kept on a class is hidden state that must not leak from one symbolic execution into the next."""

    def __init__(self, module):
        self.module = module
        self.snap = []
        for cls in self._classes():
            for k, v in list(vars(cls).items()):
                if not k.startswith('__') and type(v) in (dict, list, set):
                    self.snap.append((cls, k, v, type(v)(v)))

    def _classes(self):
        return [c for c in vars(self.module).values()
                if isinstance(c, type) and getattr(c, '__module__', None) == self.module.__name__]

    def restore(self):
        known = set((id(cls), k) for cls, k, _, _ in self.snap)
        for cls, k, obj, copy in self.snap:
            if type(obj) is list:
                obj[:] = copy
            else:
                obj.clear()
                obj.update(copy)
            if vars(cls).get(k) is not obj:
                setattr(cls, k, obj)
        for cls in self._classes():
            for k, v in list(vars(cls).items()):
                if not k.startswith('__') and type(v) in (dict, list, set) and (id(cls), k) not in known:
                    v.clear()
