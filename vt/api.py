"""Harness-side API: condition registry, family parameters, reach markers.

A *condition* is a plain function with a PEP-316 docstring (``pre:`` lines = validity predicate + bounds,
``post: _``) returning True iff the independent oracle agrees with what the real code did.  Called with
concrete arguments it is its own replay.
"""
import os

REPLAY = os.environ.get('VT_REPLAY') == '1'

_REACH = False          # set by the worker when running the reachability twin
_FAM = {}               # concrete family parameters of the current condition instance
_TIER = os.environ.get('VERIF_TIER', 'quick')


class ReachWitness(Exception):
    """Raised by deep() in reach mode: a path got to the deep point (vacuity guard)."""


class HarnessUnsupported(Exception):
    """An abstraction was used in a way it does not model -> inconclusive, never a verdict."""


class Hang(BaseException):
    """A blocking call that would never return (peer silent, socket open)."""


def deep(fact=True):
    """Mark a deep point of the harness; in reach mode reaching it with `fact` true ends the path as witness."""
    if _REACH and fact:
        raise ReachWitness()
    return True


def fam(name=None, default=None):
    if name is None:
        return _FAM
    return _FAM.get(name, default)


def tier():
    return _TIER


class Cond(object):
    def __init__(self, fn, meta):
        self.fn = fn
        self.name = fn.__name__
        self.meta = meta

    def instances(self, tier_name):
        fam_spec = self.meta.get('family')
        if callable(fam_spec):
            fam_spec = fam_spec(tier_name)
        if not fam_spec:
            return [{}]
        if isinstance(fam_spec, list):
            return fam_spec
        # dict name -> iterable of values: cartesian product
        out = [{}]
        for k, vals in fam_spec.items():
            out = [dict(d, **{k: v}) for d in out for v in vals]
        return out


def cond(bounds='', family=None, timeout=None, thorough_timeout=None, reach=True, tiers=('quick', 'thorough'),
         outside=''):
    """Register a condition.

    bounds  -- human-readable statement of what is symbolic and in which range
    family  -- dict/list/callable(tier) giving concrete selector tuples; one condition instance per tuple
    timeout -- per-instance CrossHair budget (seconds, quick tier); thorough_timeout for the thorough tier
    reach   -- run the reachability twin (deep() markers must exist in the body)
    """
    def deco(fn):
        reg = fn.__globals__.setdefault('__conds__', [])
        reg.append(Cond(fn, dict(bounds=bounds, family=family, timeout=timeout,
                                 thorough_timeout=thorough_timeout, reach=reach, tiers=tiers, outside=outside)))
        return fn
    return deco
