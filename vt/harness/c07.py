"""C07 -- DIMSE reassembly is exact under any PDV grouping; completion detected exactly."""
import warnings
import vt
vt.use_repo()
warnings.simplefilter('ignore')
import pydicom
from vt import api
from vt.api import cond, deep, fam, tier, pick
from vt.refs import part10
from vt.harness.c06 import MSG_CLASSES
from vt.harness.c08 import PS37_COMMAND_FIELD, set_fields
from pynetdicom2 import dimsemessages as dm, fsm, pdu, dsutils, applicationentity, asceprovider

ASSUMPTIONS = [
    'fragments are produced by the real encoder (C06), regrouped into P-DATA-TF PDUs according to a symbolic composition '
    'and fed one PDU at a time to the real DIMSEDecoder (as DT-2 / AR-6 do)',
    'file-backed reception goes through the real AEBase.get_file / write_meta with tempfile.TemporaryFile replaced by an '
    'in-memory file; the file handed over is read back by the independent Part-10 reader vt/refs/part10.py',
    'data set = 2 symbolic bytes followed by a concrete tail (so that it spans several fragments)',
]

CT = '1.2.840.10008.5.1.4.1.1.2'
TS_LIST = ['1.2.840.10008.1.2', '1.2.840.10008.1.2.1', '1.2.840.10008.1.2.2']
TAIL = bytes(range(0x30, 0x30 + 70))


class _TempfileModule(object):
    created = []

    @classmethod
    def TemporaryFile(cls, *a, **k):
        f = pdu.cStringIO()
        cls.created.append(f)
        return f


applicationentity.tempfile = _TempfileModule


def store_rq(mid, data):
    m = dm.CStoreRQMessage()
    m.message_id = mid
    m.sop_class_uid = CT
    m.affected_sop_instance_uid = '1.2.3.4.5'
    m.priority = 0
    m.data_set = data
    m.set_length()
    return m


def regroup(frag_pdus, g):
    """bit i of g set = fragment i+1 starts a new P-DATA-TF PDU"""
    groups = [[frag_pdus[0].data_value_items[0]]]
    for i in range(1, len(frag_pdus)):
        item = frag_pdus[i].data_value_items[0]
        if (g >> (i - 1)) & 1:
            groups.append([item])
        else:
            groups[-1].append(item)
    return [pdu.PDataTfPDU(items) for items in groups]


def _norm(v):
    """an element that was sent with an empty value comes back empty: '' / None / [] are the same thing"""
    if v is None or v == '' or v == b'' or v == []:
        return None
    return str(v)


def cmd_equal(a, b):
    ea = sorted((int(e.tag), _norm(e.value)) for e in a)
    eb = sorted((int(e.tag), _norm(e.value)) for e in b)
    return ea == eb


MS = [40, 58, 90, 16384]


@cond(bounds='C-STORE-RQ with message id symbolic 0..65535 and a data set of 2 symbolic bytes + 0 / 35 / 70 concrete bytes '
             '(one instance each), fragmented with maximum length 58 / 16384 (quick) or 40 / 58 / 90 / 16384 (thorough; 2..7 fragments) '
             'and delivered in every composition of the fragment list into P-DATA-TF PDUs (symbolic bit-vector); '
             'reception in memory or file-backed (one instance each), negotiated transfer syntax by symbolic index',
      family=lambda t: [dict(mi=m, in_file=f, tl=l) for f in (0, 1) for m, l in (
          [(m, l) for m in (0, 1, 2, 3) for l in (0, 1, 2)] if t == 'thorough' else [(1, 0), (3, 0), (3, 2), (2, 1)])],
      timeout=300, thorough_timeout=1500)
def regrouped(mid: int, d: bytes, g: int, tsi: int) -> bool:
    """
    pre: 0 <= mid <= 65535 and len(d) == 2 and 0 <= g <= 63 and 0 <= tsi <= 2 and (fam('in_file') == 1 or tsi == 0)
    post: _
    """
    M = MS[fam('mi')]
    if fam('in_file') and fam('tl'):
        d = b'\x02\x00'                 # long file-backed data sets: concrete content (the solver varies grouping, ids, syntax)
    data = d + TAIL[:(0, 35, 70)[fam('tl')]]
    ts = pydicom.uid.UID(TS_LIST[pick(tsi, 0, 2)])
    msg = store_rq(mid, data)
    frags = list(msg.encode(5, M))
    n = len(frags)
    if n > 7:
        return True
    g = pick(g, 0, 63)
    if g >= (1 << (n - 1)):
        return True                      # not a composition of this fragment list
    pdus = regroup(frags, g)
    ae = object.__new__(applicationentity.AE)
    applicationentity.AEBase.__init__(ae, TS_LIST, M)
    accepted = {5: asceprovider.PContextDef(5, pydicom.uid.UID(CT), ts)}
    store_in_file = frozenset([CT]) if fam('in_file') else frozenset()
    dec = fsm.DIMSEDecoder(accepted, store_in_file, ae.get_file)
    ok = True
    for i, p in enumerate(pdus):
        ok = ok and dec.receiving                      # not signalled complete before this PDU
        dec.process(p)
        if i < len(pdus) - 1:
            ok = ok and dec.receiving                  # never earlier than the PDU with the last fragment
    ok = ok and not dec.receiving                      # and not later
    if not ok:
        return False
    got = dec.msg
    ok = type(got) is dm.CStoreRQMessage and dec.pc_id == 5 and cmd_equal(got.command_set, msg.command_set)
    if fam('in_file'):
        fp = got.data_set
        ok = ok and not isinstance(fp, bytes) and fp is not None
        if ok:
            whole = fp.read()                          # read from where it is handed over: the start of the file
            ok = ok and whole == fp.getvalue()
            try:
                meta, off = part10.read_meta(whole)
            except part10.Part10Error:
                return False
            ok = ok and whole[off:] == data
            ok = ok and part10.text(meta[(2, 0x10)]) == str(ts) and part10.text(meta[(2, 2)]) == CT \
                and part10.text(meta[(2, 3)]) == '1.2.3.4.5'
    else:
        ok = ok and got.data_set == data
    deep(ok and n >= 2 and g == (1 << (n - 1)) - 1)
    return ok


@cond(bounds='all 23 command-field codes: a message of each class (message id symbolic 0..65535, optional '
             'fields set/unset), without and with data set, in one or two P-DATA-TF PDUs, is reconstructed as the class '
             'PS3.7 assigns to its command field, with identical command set',
      family={'cls': list(range(23))}, timeout=180)
def dispatch(mid: int, with_ds: bool, split: bool) -> bool:
    """
    pre: 0 <= mid <= 65535
    post: _
    """
    cls = MSG_CLASSES[fam('cls')]
    msg = cls()
    set_fields(msg, mid, 0xFF00, 5, split)
    data = b'\x08\x00\x18\x00\x02\x00\x00\x001.' if with_ds else None
    msg.data_set = data
    msg.set_length()
    frags = list(msg.encode(7, 16384))
    pdus = frags if split else regroup(frags, 0)
    dec = fsm.DIMSEDecoder({}, frozenset(), None)
    ok = True
    for i, p in enumerate(pdus):
        ok = ok and dec.receiving
        dec.process(p)
    ok = ok and not dec.receiving and dec.pc_id == 7
    if not ok:
        return False
    got = dec.msg
    ok = type(got) is cls and type(got).__name__ in PS37_COMMAND_FIELD \
        and PS37_COMMAND_FIELD[type(got).__name__] == int(got.command_set[(0x0000, 0x0100)].value)
    ok = ok and cmd_equal(got.command_set, msg.command_set) and got.data_set == data
    deep(ok and with_ds and split)
    return ok


def explain(cname, args, famv):
    return 'fragments regrouped by bit-vector g; see condition source'
