"""C07 -- DIMSE reassembly is exact under any PDV grouping; completion detected exactly."""
import warnings
import vt
vt.use_repo()
warnings.simplefilter('ignore')
import pydicom
from vt import api
from vt.api import cond, deep, fam, tier, pick
from vt.refs import part10
from vt.harness.c06 import MSG_CLASSES
from vt.harness.c08 import PS37_COMMAND_FIELD, set_fields
from pynetdicom2 import dimsemessages as dm, fsm, pdu, dsutils, applicationentity, asceprovider

ASSUMPTIONS = [
    'fragments are produced by the real encoder (C06), regrouped into P-DATA-TF PDUs according to a symbolic composition '
    'and fed one PDU at a time to the real DIMSEDecoder (as DT-2 / AR-6 do)',
    'file-backed reception goes through the real AEBase.get_file / write_meta with tempfile.TemporaryFile replaced by an '
    'in-memory file; the file handed over is read back by the independent Part-10 reader vt/refs/part10.py',
    'data set = 2 symbolic bytes followed by a concrete tail (so that it spans several fragments)',
]

CT = '1.2.840.10008.5.1.4.1.1.2'
TS_LIST = ['1.2.840.10008.1.2', '1.2.840.10008.1.2.1', '1.2.840.10008.1.2.2']
TAIL = bytes(range(0x30, 0x30 + 70))


class _TempfileModule(object):
    created = []

    @classmethod
    def TemporaryFile(cls, *a, **k):
        f = pdu.cStringIO()
        cls.created.append(f)
        return f


applicationentity.tempfile = _TempfileModule


def store_rq(mid, data):
    m = dm.CStoreRQMessage()
    m.message_id = mid
    m.sop_class_uid = CT
    m.affected_sop_instance_uid = '1.2.3.4.5'
    m.priority = 0
    m.data_set = data
    m.set_length()
    return m


def regroup(frag_pdus, g):
    """bit i of g set = fragment i+1 starts a new P-DATA-TF PDU"""
    groups = [[frag_pdus[0].data_value_items[0]]]
    for i in range(1, len(frag_pdus)):
        item = frag_pdus[i].data_value_items[0]
        if (g >> (i - 1)) & 1:
            groups.append([item])
        else:
            groups[-1].append(item)
    return [pdu.PDataTfPDU(items) for items in groups]


def _norm(v):
    """an element that was sent with an empty value comes back empty: '' / None / [] are the same thing"""
    if v is None or v == '' or v == b'' or v == []:
        return None
    if isinstance(v, int):
        return v                     # (str() of a symbolic int forks once per digit count)
    return str(v)


def cmd_equal(a, b, ds_type_by_meaning=False):
    """same elements with the same values; ds_type_by_meaning: Command Data Set Type is compared by what it says
    (0101H = no data set, anything else = data set present) - the library normalises the value on reception"""
    def val(e):
        if ds_type_by_meaning and int(e.tag) == 0x00000800:
            return 'none' if e.value == 0x0101 else 'present'
        return _norm(e.value)
    ea = sorted((int(e.tag), val(e)) for e in a)
    eb = sorted((int(e.tag), val(e)) for e in b)
    return ea == eb


MS = [40, 58, 90, 16384]
FIND = '1.2.840.10008.5.1.4.1.2.2.1'
MR = '1.2.840.10008.5.1.4.1.1.4'


@cond(bounds='C-STORE-RQ with message id symbolic 0..65535 and a data set of 2 symbolic bytes + 0 / 35 / 70 concrete bytes '
             '(one instance each), fragmented with maximum length 58 / 16384 (quick) or 40 / 58 / 90 / 16384 (thorough; 2..7 fragments) '
             'and delivered in every composition of the fragment list into P-DATA-TF PDUs (symbolic bit-vector); '
             'reception in memory or file-backed (one instance each), negotiated transfer syntax by symbolic index',
      family=lambda t: [dict(mi=m, in_file=f, tl=l) for f in (0, 1) for m, l in (
          [(m, l) for m in (0, 1, 2, 3) for l in (0, 1, 2)] if t == 'thorough' else [(1, 0), (3, 0), (3, 2), (2, 1)])],
      timeout=300, thorough_timeout=1500)
def regrouped(mid: int, d: bytes, g: int, tsi: int) -> bool:
    """
    pre: 0 <= mid <= 65535 and len(d) == 2 and 0 <= g <= 63 and 0 <= tsi <= 2 and (fam('in_file') == 1 or tsi == 0)
    post: _
    """
    M = MS[fam('mi')]
    if fam('in_file') and fam('tl'):
        d = b'\x02\x00'                 # long file-backed data sets: concrete content (the solver varies grouping, ids, syntax)
    data = d + TAIL[:(0, 35, 70)[fam('tl')]]
    ts = pydicom.uid.UID(TS_LIST[pick(tsi, 0, 2)])
    msg = store_rq(mid, data)
    frags = list(msg.encode(5, M))
    n = len(frags)
    if n > 7:
        return True
    g = pick(g, 0, 63)
    if g >= (1 << (n - 1)):
        return True                      # not a composition of this fragment list
    pdus = regroup(frags, g)
    ae = object.__new__(applicationentity.AE)
    applicationentity.AEBase.__init__(ae, TS_LIST, M)
    accepted = {5: asceprovider.PContextDef(5, pydicom.uid.UID(CT), ts)}
    store_in_file = frozenset([CT]) if fam('in_file') else frozenset()
    dec = fsm.DIMSEDecoder(accepted, store_in_file, ae.get_file)
    ok = True
    for i, p in enumerate(pdus):
        ok = ok and dec.receiving                      # not signalled complete before this PDU
        dec.process(p)
        if i < len(pdus) - 1:
            ok = ok and dec.receiving                  # never earlier than the PDU with the last fragment
    ok = ok and not dec.receiving                      # and not later
    if not ok:
        return False
    got = dec.msg
    ok = type(got) is dm.CStoreRQMessage and dec.pc_id == 5 and cmd_equal(got.command_set, msg.command_set)
    if fam('in_file'):
        fp = got.data_set
        ok = ok and not isinstance(fp, bytes) and fp is not None
        if ok:
            whole = fp.read()                          # read from where it is handed over: the start of the file
            ok = ok and whole == fp.getvalue()
            try:
                meta, off = part10.read_meta(whole)
            except part10.Part10Error:
                return False
            ok = ok and whole[off:] == data
            ok = ok and part10.text(meta[(2, 0x10)]) == str(ts) and part10.text(meta[(2, 2)]) == CT \
                and part10.text(meta[(2, 3)]) == '1.2.3.4.5'
    else:
        ok = ok and got.data_set == data
    deep(ok and n >= 2 and g == (1 << (n - 1)) - 1)
    return ok


TINY = (7, 8, 9, 10, 13, 16)
TINY_MIDS = (0, 255, 256, 65535)


@cond(bounds='very small maximum PDU lengths: a C-STORE-RQ (116-octet command set, 6-octet data set; message id from {0, 255, 256, '
             '65535}) or a C-ECHO-RQ fragmented for a peer maximum from {7, 8, 9, 10, 13, 16} (1..10 payload octets per '
             'fragment: the COMMAND SET alone becomes 12..116 fragments) and delivered one fragment per PDU, all in one PDU, '
             'or in PDUs of 2 / 3 / 17 fragments - all by symbolic selectors (everything else concrete: runs outside the '
             'tracer): the message is rebuilt exactly, complete exactly at the last fragment', timeout=300)
def tiny_fragments(mi: int, gi: int, idi: int, echo: bool) -> bool:
    """
    pre: 0 <= mi <= 5 and 0 <= gi <= 4 and 0 <= idi <= 3
    post: _
    """
    from vt import sim
    M = TINY[pick(mi, 0, 5)]
    per = (1, 0, 2, 3, 17)[pick(gi, 0, 4)]
    mid = TINY_MIDS[pick(idi, 0, 3)]
    is_echo = bool(pick(int(echo), 0, 1))
    with sim._no_tracing():
        data = b'\x10\x00\x20\x00\x00\x00'
        if is_echo:
            msg, cid, data = _seq_message('echo', mid, None)
        else:
            msg, cid = store_rq(mid, data), 5
        frags = list(msg.encode(cid, M))
        n = len(frags)
        pdus = []
        step = n if per == 0 else per
        for i in range(0, n, step):
            pdus.append(pdu.PDataTfPDU([v for f in frags[i:i + step] for v in f.data_value_items]))
        accepted = {5: asceprovider.PContextDef(5, pydicom.uid.UID(CT), pydicom.uid.UID(TS_LIST[0])),
                    3: asceprovider.PContextDef(3, pydicom.uid.UID('1.2.840.10008.1.1'), pydicom.uid.UID(TS_LIST[0]))}
        dec = fsm.DIMSEDecoder(accepted, frozenset(), None)
        ok = all(len(f.encode()) <= M + 6 for f in frags)
        try:
            for i, p in enumerate(pdus):
                ok = ok and dec.receiving
                dec.process(pdu.PDataTfPDU.decode(p.encode()))
                if i < len(pdus) - 1:
                    ok = ok and dec.receiving
        except Exception:                      # noqa: the decoder gave up on a conformant message
            ok = False
        ok = ok and not dec.receiving
        if ok:
            got = dec.msg
            ok = type(got) is type(msg) and dec.pc_id == cid and cmd_equal(got.command_set, msg.command_set) \
                and got.data_set == data
    deep(ok and M == 7 and per == 17 and not is_echo)
    return ok


@cond(bounds='all 23 command-field codes: a message of each class (message id symbolic 0..65535, optional '
             'fields set/unset), without and with data set, in one or two P-DATA-TF PDUs, is reconstructed as the class '
             'PS3.7 assigns to its command field, with identical command set',
      family={'cls': list(range(23))}, timeout=180)
def dispatch(mid: int, with_ds: bool, split: bool) -> bool:
    """
    pre: 0 <= mid <= 65535
    post: _
    """
    cls = MSG_CLASSES[fam('cls')]
    msg = cls()
    set_fields(msg, mid, 0xFF00, 5, split)
    data = b'\x08\x00\x18\x00\x02\x00\x00\x001.' if with_ds else None
    msg.data_set = data
    msg.set_length()
    frags = list(msg.encode(7, 16384))
    pdus = frags if split else regroup(frags, 0)
    dec = fsm.DIMSEDecoder({}, frozenset(), None)
    ok = True
    for i, p in enumerate(pdus):
        ok = ok and dec.receiving
        dec.process(p)
    ok = ok and not dec.receiving and dec.pc_id == 7
    if not ok:
        return False
    got = dec.msg
    ok = type(got) is cls and type(got).__name__ in PS37_COMMAND_FIELD \
        and PS37_COMMAND_FIELD[type(got).__name__] == int(got.command_set[(0x0000, 0x0100)].value)
    ok = ok and cmd_equal(got.command_set, msg.command_set) and got.data_set == data
    deep(ok and with_ds and split)
    return ok


@cond(bounds='C-STORE-RQ / C-FIND-RQ whose Command Data Set Type is ANY 16-bit value other than 0101H (symbolic; PS3.7 '
             'E.1: every value but 0101H means a data set follows - peers use 0000H, 0001H, 0102H ...), 2 symbolic data '
             'bytes + 35 concrete, maximum length 58, every composition of the fragment list (symbolic bit-vector), in '
             'memory and file-backed', family={'in_file': [0, 1], 'find': [0, 1]}, timeout=300)
def foreign_dataset_type(mid: int, d: bytes, g: int, dst: int) -> bool:
    """
    pre: 0 <= mid <= 65535 and len(d) == 2 and 0 <= g <= 63 and 0 <= dst <= 65535 and dst != 0x0101
    post: _
    """
    data = d + TAIL[:35]
    if fam('find'):
        msg = dm.CFindRQMessage()
        msg.message_id = mid
        msg.sop_class_uid = FIND
        msg.priority = 0
        msg.data_set = data
    else:
        msg = store_rq(mid, data)
    msg.command_set.CommandDataSetType = dst
    msg.set_length()
    frags = list(msg.encode(5, 58))
    n = len(frags)
    g = pick(g, 0, 63)
    if n > 7 or g >= (1 << (n - 1)):
        return True
    pdus = regroup(frags, g)
    ae = object.__new__(applicationentity.AE)
    applicationentity.AEBase.__init__(ae, TS_LIST, 58)
    accepted = {5: asceprovider.PContextDef(5, pydicom.uid.UID(CT), pydicom.uid.UID(TS_LIST[0]))}
    dec = fsm.DIMSEDecoder(accepted, frozenset([CT]) if fam('in_file') else frozenset(), ae.get_file)
    ok = True
    for i, p in enumerate(pdus):
        ok = ok and dec.receiving
        dec.process(p)
        if i < len(pdus) - 1:
            ok = ok and dec.receiving
    ok = ok and not dec.receiving
    if not ok:
        return False
    got = dec.msg
    ok = type(got) is type(msg) and dec.pc_id == 5 and cmd_equal(got.command_set, msg.command_set, True)
    if fam('in_file') and not fam('find'):
        fp = got.data_set
        ok = ok and fp is not None and not isinstance(fp, bytes)
        if ok:
            whole = fp.read()
            try:
                meta, off = part10.read_meta(whole)
            except part10.Part10Error:
                return False
            ok = ok and whole[off:] == data
    else:
        ok = ok and got.data_set == data
    deep(ok and n >= 2 and dst == 0x0102)
    return ok


def _seq_message(kind, mid, data):
    if kind in ('store_file', 'store_mem', 'store_file_b'):
        m = store_rq(mid, data)
        if kind == 'store_mem':
            m.sop_class_uid = MR
        return m, {'store_file': 5, 'store_mem': 9, 'store_file_b': 11}[kind], data
    if kind == 'find':
        m = dm.CFindRQMessage()
        m.message_id = mid
        m.sop_class_uid = FIND
        m.priority = 0
        m.data_set = data
        m.set_length()
        return m, 7, data
    m = dm.CEchoRQMessage()
    m.message_id = mid
    m.sop_class_uid = '1.2.840.10008.1.1'
    m.set_length()
    return m, 3, None


SEQS = [('store_file', 'find'), ('find', 'store_file'), ('store_file', 'store_mem'), ('store_file', 'echo', 'find'),
        ('store_file', 'store_file'), ('find', 'echo', 'store_mem'),
        # the same SOP class received on two contexts with different negotiated transfer syntaxes
        ('store_file', 'store_file_b'), ('store_file_b', 'store_file', 'store_file_b')]

_APP_STATE = [api.ClassState(applicationentity), api.ModuleState(applicationentity)]


@cond(bounds='2-3 messages in a row on ONE association through the real StateMachine.dt_2 / ar_6 (Sta6 or Sta7): 6 orders of '
             'file-backed C-STORE-RQ, in-memory C-STORE-RQ, C-FIND-RQ, C-ECHO-RQ; message ids symbolic, 22 '
             'concrete data bytes each (distinct per message), maximum length 58, each message delivered all in one P-DATA-TF, one fragment per '
             'PDU, or split after the first / before the last fragment (symbolic selectors); every message must be indicated exactly when its last fragment arrives (and be complete - data set attached, file rewound - at the moment the indication is queued), with '
             'its own type, context, command set and data (incl. the same SOP class on two contexts with different syntaxes); the '
             'application may have closed an earlier file (symbolic); in extra instances the local user requests release after 1 / 3 '
             '(thorough: 1..4) PDUs of the first message: the rest arrives in Sta7',
      family=lambda t: [dict(seq=q, sta7=z, rel=0) for q in range(len(SEQS)) for z in (0, 1)
                        if t == 'thorough' or (q + z) % 2 == 0] +
                       [dict(seq=q, sta7=0, rel=r) for q in (0, 1) for r in ((1, 2, 3, 4) if t == 'thorough' else (1, 3))],
      timeout=300)
def message_sequence(mid: int, g1: int, g2: int, closed: bool) -> bool:
    """
    pre: 0 <= mid <= 65000 and 0 <= g1 <= 3 and 0 <= g2 <= 3
    post: _
    """
    from vt import sim
    for st_ in _APP_STATE:
        st_.restore()                     # containers kept on the entity module / classes (caches) start empty
    rel = fam('rel', 0)
    kinds_ = SEQS[fam('seq')]
    ae = object.__new__(applicationentity.AE)
    applicationentity.AEBase.__init__(ae, TS_LIST, 58)
    sock = sim.SimSocket()
    prov = sim.make_provider(sock, frozenset([CT]), ae.get_file)
    prov.event.clear()
    ts = pydicom.uid.UID(TS_LIST[1])
    ts_b = pydicom.uid.UID(TS_LIST[2])
    prov.accepted_contexts = {5: asceprovider.PContextDef(5, pydicom.uid.UID(CT), ts),
                              11: asceprovider.PContextDef(11, pydicom.uid.UID(CT), ts_b),
                              9: asceprovider.PContextDef(9, pydicom.uid.UID(MR), ts),
                              7: asceprovider.PContextDef(7, pydicom.uid.UID(FIND), ts),
                              3: asceprovider.PContextDef(3, pydicom.uid.UID('1.2.840.10008.1.1'), ts)}
    sm = prov.state_machine
    state = fsm.States.STA_7 if fam('sta7') else fsm.States.STA_6
    sm.current_state = state
    g1, g2 = pick(g1, 0, 3), pick(g2, 0, 3)
    log = prov.to_service_user.log
    at_put = []

    def snapshot(item):
        # the indication becomes visible to the user's thread inside put(): the message must be complete THEN
        ds_ = item[0].data_set if isinstance(item, tuple) else None
        if ds_ is None or isinstance(ds_, bytes):
            at_put.append(ds_)
        else:
            at_put.append((ds_.tell(), ds_.getvalue()))
    prov.to_service_user.on_put = snapshot
    ok = True
    for j, kind in enumerate(kinds_):
        data = (b'\x10\x00', b'\x20\x00', b'\x30\x00')[j] + TAIL[j:j + 20]
        msg, cid, data = _seq_message(kind, mid + j, data)
        frags = list(msg.encode(cid, 58))
        n = len(frags)
        g = (g1, g2, g1)[j]
        full = (1 << (n - 1)) - 1
        g = (0, full, 1, 1 << (n - 2) if n > 1 else 0)[g]
        pdus = regroup(frags, g)
        for i, p in enumerate(pdus):
            if j == 0 and rel and i == rel and state == fsm.States.STA_6:
                # the local user requests release in the middle of the incoming message (AR-1: Sta6 -> Sta7); the rest
                # of the message arrives in Sta7 (AR-6)
                prov.primitive = pdu.AReleaseRqPDU()
                sm.action(fsm.Events.EVT_11)
                state = fsm.States.STA_7
                ok = ok and len(sock.sent) == 1
                del sock.sent[:]
            prov.primitive = p
            sm.action(fsm.Events.EVT_10)
            ok = ok and sm.current_state == state and not sock.sent
            ok = ok and len(log) == (j + 1 if i == len(pdus) - 1 else j)
        if not ok:
            return False
        got, got_cid = log[j]
        ok = type(got) is type(msg) and got_cid == cid and cmd_equal(got.command_set, msg.command_set)
        if kind in ('store_file', 'store_file_b'):
            fp = got.data_set
            ok = ok and fp is not None and not isinstance(fp, bytes)
            if not ok:
                return False
            whole = fp.getvalue()
            try:
                meta, off = part10.read_meta(whole)
            except part10.Part10Error:
                return False
            ok = ok and whole[off:] == data and part10.text(meta[(2, 0x10)]) == str(ts if kind == 'store_file' else ts_b)
            ok = ok and at_put[j] == (0, whole)             # attached, complete and rewound when it was indicated
            if closed:
                fp.close()                 # the application is done with the file it was handed
        else:
            ok = ok and got.data_set == data and at_put[j] == data
        if not ok:
            return False
    # files handed over earlier were not written to afterwards
    for j, kind in enumerate(kinds_):
        if kind in ('store_file', 'store_file_b') and not closed:
            whole = log[j][0].data_set.getvalue()
            meta, off = part10.read_meta(whole)
            ok = ok and len(whole) == off + 22
    deep(ok and g1 == 3 and g2 == 1 and closed)
    return ok


def explain(cname, args, famv):
    return 'fragments regrouped by bit-vector g; see condition source'
