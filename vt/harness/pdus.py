"""Shared builders of structured PDU values from generic symbolic scalars (used by C01, C02, C12)."""
import vt
vt.use_repo()
from pynetdicom2 import pdu, userdataitems as udi
from vt.api import pick

UIDCH = '1.2.840.10008.5.1.4.1.1.2.1234567890.98765.4321.11.22.33.44.55.6'   # 64 chars of [0-9.]
NAMECH = 'PYNETDICOM_ab-XY9'[:16]                                            # 16 printable chars
NAME2 = 's3cret/pass+word'                                                  # 16 chars
APPCH = bytes(range(0xA0, 0xA0 + 32))                                       # 32 distinct non-ASCII bytes
assert len(UIDCH) == 64 and len(NAMECH) == 16 and len(NAME2) == 16

KNOWN_SUB_TYPES = (0x51, 0x52, 0x53, 0x54, 0x55, 0x56, 0x58, 0x59)
SUB_NAMES = ['MaximumLength', 'ImplementationClassUID', 'ImplementationVersionName', 'AsynchronousOperationsWindow',
             'ScpScuRoleSelection', 'SOPClassExtendedNegotiation', 'UserIdentityRQ', 'UserIdentityAC', 'Generic']
SUB_TYPE_CODE = [0x51, 0x52, 0x55, 0x53, 0x54, 0x56, 0x58, 0x59, None]
N_SUB = 9


def mkstream(raw):
    """A stream of whatever class the codec modules currently use (PyBytesIO under CrossHair, io.BytesIO in replay)."""
    return pdu.cStringIO(raw)


def sub_ok(kind, a, b, r, n, m, nmax=64, mmax=16):
    """Validity predicate + bounds of the generic scalars for a sub-item of `kind`."""
    if not (0 <= r <= 255 and 0 <= n and 0 <= m and 0 <= a and 0 <= b):
        return False
    if kind == 0:
        return a <= 0xFFFFFFFF and b == 0 and n == 0 and m == 0
    if kind == 1:
        return n <= min(64, nmax) and a == 0 and b == 0 and m == 0
    if kind == 2:
        return n <= min(16, nmax) and a == 0 and b == 0 and m == 0
    if kind == 3:
        return a <= 0xFFFF and b <= 0xFFFF and n == 0 and m == 0
    if kind == 4:
        return a <= 255 and b <= 255 and n <= min(64, nmax) and m == 0
    if kind == 5:
        return n <= min(64, nmax) and m <= min(32, mmax) and a == 0 and b == 0
    if kind == 6:
        return a <= 255 and b <= 255 and n <= min(16, nmax) and m <= min(16, mmax)
    if kind == 7:
        return n <= min(16, nmax) and a == 0 and b == 0 and m == 0
    if kind == 8:
        return 1 <= a <= 255 and a not in KNOWN_SUB_TYPES and m <= min(32, mmax) and b == 0 and n == 0
    return False


def build_sub(kind, a, b, r, n, m, uid_s=None, name_s=None, data_s=None):
    """Sub-item of `kind`.  uid_s / name_s / data_s override the alphabet slices with symbolic contents."""
    if uid_s is None and name_s is None:
        n = pick(n, 0, 64)
    if data_s is None:
        m = pick(m, 0, 32)
    u = UIDCH[:n] if uid_s is None else uid_s
    nm = NAMECH[:n] if name_s is None else name_s
    dt = APPCH[:m] if data_s is None else data_s
    if kind == 0:
        return udi.MaximumLengthSubItem(a, reserved=r)
    if kind == 1:
        return udi.ImplementationClassUIDSubItem(u, reserved=r)
    if kind == 2:
        return udi.ImplementationVersionNameSubItem(nm, reserved=r)
    if kind == 3:
        return udi.AsynchronousOperationsWindowSubItem(a, b, reserved=r)
    if kind == 4:
        return udi.ScpScuRoleSelectionSubItem(u, a, b, reserved=r)
    if kind == 5:
        return udi.SOPClassExtendedNegotiationSubItem(u, dt, reserved=r)
    if kind == 6:
        return udi.UserIdentityNegotiationSubItem(nm, NAME2[:m] if name_s is None else name_s[::-1],
                                                  user_identity_type=a, positive_response_req=b, reserved=r)
    if kind == 7:
        return udi.UserIdentityNegotiationSubItemAc(nm, reserved=r)
    if kind == 8:
        return udi.GenericUserDataSubItem(a, dt, reserved=r)
    raise ValueError(kind)


# fixed concrete successor/predecessor samples (one per kind), used where a neighbour only has to be *there*
def sample_sub(kind, c=0):
    return build_sub(kind, *SAMPLE_ARGS[kind](c))


SAMPLE_ARGS = {
    0: lambda c: (c, 0, 0, 0, 0),
    1: lambda c: (0, 0, c & 255, 5, 0),
    2: lambda c: (0, 0, c & 255, 4, 0),
    3: lambda c: (c & 0xFFFF, 7, 0, 0, 0),
    4: lambda c: (c & 255, 1, 0, 6, 0),
    5: lambda c: (0, 0, c & 255, 7, 3),
    6: lambda c: (c & 255, 1, 0, 5, 4),
    7: lambda c: (0, 0, c & 255, 6, 0),
    8: lambda c: (0x5A, 0, c & 255, 0, 5),
}


def ascii_printable(s):
    for ch in s:
        if not 32 <= ord(ch) <= 126:
            return False
    return True


def uid_chars(s):
    for ch in s:
        if ch not in '0123456789.':
            return False
    return True


def ae_title_ok(s):
    """0-16 chars of 0x20..0x7E, no backslash, no leading/trailing space (PS3.5 AE VR, padding removed)."""
    if len(s) > 16:
        return False
    for ch in s:
        if not 32 <= ord(ch) <= 126 or ch == '\\':
            return False
    if s and (s[0] == ' ' or s[-1] == ' '):
        return False
    return True


def same(a, b):
    """Structural equality: recursive __dict__ comparison, lists in order, exact types for objects."""
    if isinstance(a, (list, tuple)):
        if not isinstance(b, (list, tuple)) or len(a) != len(b):
            return False
        for x, y in zip(a, b):
            if not same(x, y):
                return False
        return True
    if isinstance(a, (str, bytes, int)) or a is None:
        return a == b
    if hasattr(a, '__dict__'):
        if type(a) is not type(b):
            return False
        da, db = a.__dict__, b.__dict__
        if len(da) != len(db):
            return False
        for k in da:
            if k not in db or not same(da[k], db[k]):
                return False
        return True
    return a == b
