"""C03 -- PDU framing is independent of how TCP segments the byte stream (dulprovider.py)."""
import warnings
import vt
vt.use_repo()
warnings.simplefilter('ignore')
from vt import api
from vt.api import cond, deep, fam, tier, pick
from vt.absbytes import AbsBytes
from vt.harness import prov

ASSUMPTIONS = [
    'the real DULServiceProvider.run / _check_network / _check_incoming_pdu / _process_incoming / state machine run in '
    'the calling thread over the simulated transport of vt/harness/prov.py (select, socket, queues, clock stand-ins); '
    'peer turns are gated on what the provider has written, user primitives on what it has indicated',
    'received data are AbsBytes windows of the peer\'s concrete byte stream whose bounds (the cut offsets) are symbolic '
    'integers; a slice with fully determined bounds is the real bytes',
    'corpus: 12 conformant conversations (both roles; echo, multi-fragment store, release and abort by either side, '
    'reject, several PDUs per peer turn)',
]

CORPUS = prov.get_corpus()
NAMES = sorted(n for n in CORPUS if n != 'acc_sending_fragments_peer_closes')   # that one ends in a loop error (C13)
INSTANCES = [dict(conv=n, turn=t) for n in NAMES for t in prov.peer_turns(CORPUS[n][1])]


def pdu_split(raw):
    """one PDU per segment (the reference delivery)"""
    out = []
    pos = 0
    while pos < len(raw):
        ln = int.from_bytes(raw[pos + 2:pos + 6], 'big') + 6
        out.append(raw[pos:pos + ln])
        pos += ln
    return out


def _reference(name):
    acc, turns = CORPUS[name]
    return prov.Conversation(turns, acceptor=acc, segmenter=lambda i, raw: pdu_split(raw)).run()


_REF = {}


def reference(name):
    """trace of the one-PDU-per-segment delivery (computed once per process, at import time, outside the solver)"""
    if name not in _REF:
        _REF[name] = _reference(name)
    return _REF[name]


def windows(raw, cuts):
    """non-empty windows of raw between successive cut offsets (0 <= c1 <= c2 <= ... <= len(raw))"""
    out = []
    prev = 0
    for c in list(cuts) + [len(raw)]:
        if c > prev:
            out.append(AbsBytes(raw, prev, c))
            prev = c
    return out


def _npdus(name, turn):
    return len(pdu_split(CORPUS[name][1][turn][1]))


def _cut_ok(c1, c2):
    """quick tier: turns carrying several PDUs get one symbolic cut (c2 = c1), two in the thorough tier"""
    if tier() != 'thorough' and _npdus(fam('conv'), fam('turn')) > 1:
        return c1 == c2
    return True


@cond(bounds='every conversation of the corpus x every peer turn (one instance each): the turn\'s byte string is '
             'delivered in up to three segments cut at symbolic offsets 0 <= c1 <= c2 <= len (unbounded symbolic '
             'integers: every single cut and every pair of cuts at once; turns carrying several PDUs: one cut in the '
             'quick tier), all other turns one PDU per segment',
      family=INSTANCES, timeout=240, thorough_timeout=1200)
def two_cuts(c1: int, c2: int) -> bool:
    """
    pre: 0 <= c1 <= c2 and _cut_ok(c1, c2)
    pre: c2 <= len(CORPUS[fam('conv')][1][fam('turn')][1])
    post: _
    """
    delay = 0
    name, turn = fam('conv'), fam('turn')
    acc, turns = CORPUS[name]

    def seg(i, raw):
        if i == turn:
            return windows(raw, (c1, c2))
        return pdu_split(raw)
    conv = prov.Conversation(turns, acceptor=acc, segmenter=seg)
    got = conv.run()
    want = reference(name)
    ok = got.err is None and not got.over_budget and got.key() == want.key() and got.leftover == 0
    deep(ok and 0 < c1 < 4 and (c2 > c1 + 7 or not _cut_ok(c1, c1 + 1)))
    return ok


# ------------------------------------------------------------------------------------------------
# one inductive step of the framing function from an arbitrary buffer state (covers any number of cuts and PDUs)
# ------------------------------------------------------------------------------------------------

def _stream_of(name):
    """everything the peer sends in conversation `name`, and the offsets at which its PDUs start"""
    raw = b''.join(t[1] for t in CORPUS[name][1] if t[0] == 'peer')
    bounds, pos = [], 0
    while pos < len(raw):
        bounds.append(pos)
        pos += int.from_bytes(raw[pos + 2:pos + 6], 'big') + 6
    return raw, bounds


@cond(bounds='ONE call of the real _process_incoming from an arbitrary buffer state: the receive buffer holds the unread '
             'rest of the peer\'s stream from a PDU boundary (every boundary of every conversation\'s stream, symbolic '
             'selector) up to a SYMBOLIC fill level b (any value up to the end of the stream - unbounded integer). It '
             'must consume exactly the first PDU (6 + its length field) iff that PDU is completely there, queue exactly '
             'one event of that PDU\'s type with the decoded PDU (re-encoding to the same octets) as current primitive, '
             'and leave the rest of the stream - again starting at a PDU boundary - in the buffer; otherwise leave '
             'buffer, event queue and primitive slot untouched. The post-state is a pre-state of the same shape: by '
             'induction over calls this covers every number of PDUs and every segmentation',
      family=[dict(conv=n) for n in NAMES], timeout=180)
def framing_step(j: int, b: int) -> bool:
    """
    pre: 0 <= j < len(_stream_of(fam('conv'))[1]) and 0 <= b
    pre: _stream_of(fam('conv'))[1][j] <= b <= len(_stream_of(fam('conv'))[0])
    post: _
    """
    from vt import sim
    from pynetdicom2 import dulprovider
    raw, bounds = _stream_of(fam('conv'))
    j = pick(j, 0, len(bounds) - 1)
    a = bounds[j]
    n = int.from_bytes(raw[a + 2:a + 6], 'big') + 6
    dulprovider.struct = prov._StructShim
    p = sim.make_provider(sim.SimSocket())
    p.event.clear()
    p.primitive = None
    p.raw_pdu = AbsBytes(raw, a, b) if b > a else b''
    done = p._process_incoming()
    complete = b - a >= n
    if not complete:
        ok = (not done) and len(p.event) == 0 and p.primitive is None and len(p.raw_pdu) == b - a
        deep(ok and b - a > 6)
        return ok
    if raw[a] in dulprovider.PDU_TYPES:
        cls, evt = dulprovider.PDU_TYPES[raw[a]]
        ok = bool(done) and list(p.event) == [evt] and type(p.primitive) is cls and p.primitive.encode() == raw[a:a + n]
    else:
        from pynetdicom2 import fsm
        ok = bool(done) and list(p.event) == [fsm.Events.EVT_19]     # unrecognised type: consumed, invalid-PDU event
    rest = p.raw_pdu
    ok = ok and len(rest) == b - a - n
    if isinstance(rest, AbsBytes):
        ok = ok and rest.stream is raw and rest.start == a + n and rest.stop == b
    elif len(rest):
        ok = ok and bytes(rest) == raw[a + n:b]
    deep(ok and b > a + n + 3)
    return ok


FIRST = [dict(conv=n, turn=prov.peer_turns(CORPUS[n][1])[0]) for n in NAMES]


@cond(bounds='whether the first segment is already waiting when the provider starts: the peer\'s first bytes become '
             'readable after 0..2 idle loop iterations (symbolic) and are cut once at a symbolic offset',
      family=FIRST, timeout=240)
def first_segment_timing(c1: int, delay: int) -> bool:
    """
    pre: 0 <= c1 <= len(CORPUS[fam('conv')][1][fam('turn')][1]) and 0 <= delay <= 2
    post: _
    """
    name, turn = fam('conv'), fam('turn')
    acc, turns = CORPUS[name]

    def seg(i, raw):
        if i == turn:
            return windows(raw, (c1,))
        return pdu_split(raw)
    conv = prov.Conversation(turns, acceptor=acc, segmenter=seg)
    conv.delay = pick(delay, 0, 2)
    got = conv.run()
    want = reference(name)
    ok = got.err is None and not got.over_budget and got.key() == want.key() and got.leftover == 0
    deep(ok and delay == 2 and c1 == 3)
    return ok


@cond(bounds='every conversation: the provider reads with a symbolic receive size r >= 24 (recv(r) returns at most r '
             'bytes, so every peer turn is re-segmented at multiples of r), everything the peer sends in one turn '
             'arriving as one segment', family=[dict(conv=n) for n in NAMES], timeout=240)
def recv_limit(r: int) -> bool:
    """
    pre: 24 <= r <= 100000
    post: _
    """
    name = fam('conv')
    acc, turns = CORPUS[name]
    conv = prov.Conversation(turns, acceptor=acc, segmenter=lambda i, raw: [AbsBytes(raw, 0, len(raw))])
    conv.recv_size = r
    got = conv.run()
    want = reference(name)
    ok = got.err is None and not got.over_budget and got.key() == want.key()
    deep(ok and r < 60)
    return ok


@cond(bounds='one-byte dribble: every conversation delivered one byte per recv() (concrete schedule, loop budget 4000)',
      family=[dict(conv=n) for n in NAMES], timeout=240)
def dribble(x: int) -> bool:
    """
    pre: x == 0
    post: _
    """
    name = fam('conv')
    acc, turns = CORPUS[name]
    conv = prov.Conversation(turns, acceptor=acc, segmenter=lambda i, raw: [raw], budget=4000)
    conv.recv_size = 1
    got = conv.run()
    want = reference(name)
    ok = got.err is None and not got.over_budget and got.key() == want.key()
    deep(ok)
    return ok


def explain(cname, args, famv):
    name = famv['conv']
    acc, turns = CORPUS[name]
    want = reference(name)
    if cname in ('two_cuts', 'first_segment_timing'):
        turn = famv['turn']
        c1 = args['c1']
        c2 = args.get('c2', c1)

        def seg(i, raw):
            if i == turn:
                return [s for s in (raw[:c1], raw[c1:c2], raw[c2:]) if s]
            return pdu_split(raw)
        conv = prov.Conversation(turns, acceptor=acc, segmenter=seg)
        conv.delay = args.get('delay', 0)
    else:
        conv = prov.Conversation(turns, acceptor=acc, segmenter=lambda i, raw: [raw], budget=4000)
        conv.recv_size = args.get('r', 1)
    got = conv.run()
    return 'segmented delivery : %r\none PDU per segment: %r' % (got, want)


for _n in NAMES:
    reference(_n)
