"""C05 -- provider behaviour equals the PS3.8 protocol machine over every event history (dulprovider.py, fsm.py)."""
import collections
import warnings
import vt
vt.use_repo()
warnings.simplefilter('ignore')
from vt import api, sim
from vt.api import cond, deep, fam, tier, pick
from vt.refs import ul_machine as ref
from vt.harness import prov as P
from pynetdicom2 import dulprovider, fsm, pdu

ASSUMPTIONS = [
    'the real provider (run loop, socket reader, framing, event queue, state machine, ARTIM timer) is stepped in the '
    'calling thread: one environment event is injected, then run() is executed until an idle iteration; the observable '
    'delta (PDUs written, objects handed to the user, connection, timer, state) is compared with the reference machine '
    'vt/refs/ul_machine.py (PS3.8 Table 9-10 transcription + ARTIM + transport) after every step',
    'alphabet: each of the 7 PDU types (valid), a partial DIMSE message (non-final P-DATA fragment) and its remaining fragments, an unrecognised PDU '
    'type, transport close, nothing, and every user primitive that is legal in the reference state; before every '
    'event the clock advances by a symbolic amount 0..30 s and the ARTIM timer expires iff it has then been running '
    'for more than its limit since its last (re)start in the reference (exactly the limit: either is accepted); '
    'P-DATA indications are per complete DIMSE message (the library reassembles)',
    'two peer events delivered in one transport segment are handled as if delivered one after the other; bytes that '
    'follow a PDU on which the reference closes the transport connection are never interpreted',
    'histories: from every protocol state reachable by a canonical prefix (both roles, incl. the release-collision '
    'states) every event and every pair of events (quick) / triple (thorough) - symbolic selectors',
]

C = P.get_corpus()
RQ_PDU = C['req_echo_release'][1][0][1]          # with called_presentation_address
AC_PDU = C['acc_echo_release'][1][1][1]
ECHO_RQ = P._echo_rq()
STORE_FRAGS = P._store_rq(48)

PEER = {
    'p1': C['acc_echo_release'][1][0][1],
    'p2': C['req_echo_release'][1][1][1],
    'p3': pdu.AAssociateRjPDU(1, 1, 3).encode(),
    'p4': P.enc(ECHO_RQ),
    'p5': pdu.AReleaseRqPDU().encode(),
    'p6': pdu.AReleaseRpPDU().encode(),
    'p7': pdu.AAbortPDU(2, 0).encode(),
    'p4part': STORE_FRAGS[0].encode(),
    'pbad': b'\x09\x00\x00\x00\x00\x02\xab\xcd',
    'p4rest': P.enc(STORE_FRAGS[1:]),
}
PEER_TYPE = {'p1': 1, 'p2': 2, 'p3': 3, 'p4': 4, 'p5': 5, 'p6': 6, 'p7': 7, 'p4part': 4, 'p4rest': 4}


def user_prim(name):
    if name == 'u1':
        return RQ_PDU
    if name == 'u2':
        return AC_PDU
    if name == 'u3':
        return pdu.AAssociateRjPDU(1, 1, 1)
    if name == 'u4':
        return iter(list(P._echo_rsp()))
    if name == 'u5':
        return pdu.AReleaseRqPDU()
    if name == 'u6':
        return pdu.AReleaseRpPDU()
    if name == 'u7':
        return pdu.AAbortPDU(0, 0)
    raise ValueError(name)


USER_TYPE = {'u1': 1, 'u2': 2, 'u3': 3, 'u4': 4, 'u5': 5, 'u6': 6, 'u7': 7}
ALPHABET = ['p1', 'p2', 'p3', 'p4', 'p5', 'p6', 'p7', 'p4part', 'p4rest', 'pbad', 'pclose', 'preset', 'idle',
            'u2', 'u3', 'u4', 'u5', 'u6', 'u7']
# 'preset': the peer resets the connection (RST): reads fail with ECONNRESET once the buffered bytes are consumed, writes
# fail at once.  For the protocol machine that is a transport connection closed indication (Evt17); what the machine
# "sends" on a connection that has already been reset reaches nobody and is not compared.
PEER_EVENTS = ['p1', 'p2', 'p3', 'p4', 'p5', 'p6', 'p7', 'p4part', 'p4rest', 'pbad', 'pclose', 'preset']
ARTIM_LIMIT = 10            # seconds (dulprovider.Timer(10)); PS3.8 leaves the value to the implementation


class StepSocket(sim.SimSocket):
    def __init__(self):
        sim.SimSocket.__init__(self)
        self.inbox = collections.deque()
        self.eof = False

    def readable(self):
        return bool(self.inbox) or self.eof or self.peer_reset

    def recv(self, n, flags=0):
        import socket as _socket
        if flags & _socket.MSG_WAITALL:
            return sim.wait_all(self, n)
        if self.closed:
            raise _socket.error('closed')
        if self.inbox:
            seg = self.inbox.popleft()
            if len(seg) > n:
                self.inbox.appendleft(seg[n:])
                seg = seg[:n]
            return seg
        if self.peer_reset:
            import errno
            raise _socket.error(errno.ECONNRESET, 'Connection reset by peer')
        if self.eof:
            return b''
        raise api.Hang('recv() would block for ever')


class IdleDeque(collections.deque):
    owner = None

    def popleft(self):
        o = self.owner
        o.iterations += 1
        if o.iterations > 60:
            o.over_budget = True
            o.prov.is_killed = True
        elif len(self) == 0 and not o.pending():
            o.prov.is_killed = True
        return collections.deque.popleft(self)


class Stepper(object):
    def __init__(self, requestor):
        self.requestor = requestor
        self.sock = StepSocket()
        sockmod = sim.SocketModule()
        sockmod.socket = lambda *a: self.sock
        fsm.socket = sockmod
        dulprovider.select = sim.SimSelect()
        self.clock = sim.SimClock(1000)
        dulprovider.time = self.clock
        self.prov = sim.make_provider(None if requestor else self.sock)
        ev = IdleDeque(self.prov.event)
        ev.owner = self
        self.prov.event = ev
        self.iterations = 0
        self.over_budget = False
        self.err = None
        self.n_sent = 0
        self.n_ind = 0
        self.run()

    def pending(self):
        p = self.prov
        if p.dul_socket is not None and (self.sock.inbox or self.sock.eof or self.sock.peer_reset):
            return True
        if not p.from_service_user.empty() or p.dimse_gen is not None:
            return True
        return False

    def run(self):
        self.iterations = 0
        self.prov.is_killed = False
        try:
            self.prov.run()
        except api.Hang as h:
            self.err = 'hang: %s' % (h,)
        except api.HarnessUnsupported:
            raise
        except Exception as e:
            self.err = 'died: %s: %s' % (type(e).__name__, e)

    def inject(self, name):
        if name in PEER:
            self.sock.inbox.append(PEER[name])
        elif name == 'pclose':
            self.sock.eof = True
        elif name == 'preset':
            self.sock.peer_reset = True
        elif name == 'expire':
            self.clock.now = self.clock.now + 11
        elif name == 'tick':
            self.clock.now = self.clock.now + 1
        elif name == 'idle':
            pass
        else:
            self.prov.from_service_user.put(user_prim(name))
        self.run()

    def advance(self, dt):
        """the clock moves on by dt (any non-negative amount) while nothing else happens"""
        self.clock.now = self.clock.now + dt
        self.run()

    def inject_glued(self, first, second):
        """the peer's next two events arrive in ONE transport segment (second may be the close)"""
        seg = PEER[first]
        if second == 'pclose':
            self.sock.eof = True
        elif second == 'preset':
            self.sock.peer_reset = True
        else:
            seg = seg + PEER[second]
        self.sock.inbox.append(seg)
        self.run()

    def delta(self):
        sent = self.sock.sent[self.n_sent:]
        ind = self.prov.to_service_user.log[self.n_ind:]
        self.n_sent = len(self.sock.sent)
        self.n_ind = len(self.prov.to_service_user.log)
        return sent, ind

    def state(self):
        return self.prov.state_machine.current_state + 1


def ref_apply(r, name):
    """apply environment event `name` to the reference machine -> (sent types, indicated kinds) or None if the event
    cannot occur / is not legal now"""
    if name in PEER or name in ('pclose', 'preset'):
        if not r.transport:
            return None
        if name in ('pclose', 'preset'):
            return r.step(17)
        if name == 'pbad':
            return r.step(19)
        mid = getattr(r, 'mid', False)
        if name == 'p4part':
            if mid:
                return None               # a second first-fragment inside a message is not a DIMSE continuation
            out = r.step(10, 4, complete=False)
            r.mid = r.state in (6, 7)
            return out
        if name == 'p4rest':
            if not mid:
                return None
            sent, ind = [], []
            for i in range(len(STORE_FRAGS) - 1):
                s_, i_ = r.step(10, 4, complete=(i == len(STORE_FRAGS) - 2))
                sent += s_
                ind += i_
            r.mid = False
            return sent, ind
        if name == 'p4' and mid:
            return None                   # peers do not interleave the fragments of two messages (PS3.7)
        t = PEER_TYPE[name]
        return r.step(ref.PDU_EVENT[t], t)
    if name == 'expire':
        if r.artim:
            return r.step(18)
        return [], []
    if name in ('tick', 'idle'):
        return [], []
    t = USER_TYPE[name]
    if name == 'u1':
        if r.state != 1 or not r.requestor or r.history:
            return None
        s1, i1 = r.step(1, 1)
        s2, i2 = r.step(2, 1)
        return s1 + s2, i1 + i2
    if not r.legal_user(t):
        return None
    return r.step(ref.USER_EVENT[t], t)


def kinds(objs):
    return ['dimse' if isinstance(o, tuple) else getattr(o, 'pdu_type', '?') for o in objs]


def agree(st, r, name, expected):
    """does the stepped provider agree with the reference after event `name`?"""
    e_sent, e_ind = expected
    sent, ind = st.delta()
    if st.err is not None or st.over_budget:
        return False
    if [s[0] for s in sent] != e_sent:
        return False
    for s in sent:
        if len(s) != 6 + int.from_bytes(s[2:6], 'big'):
            return False
    if kinds(ind) != e_ind:
        return False
    if st.state() != r.state:
        return False
    if (st.prov.dul_socket is not None) != r.transport:
        return False
    if not r.transport and st.sock.connected_to is None and not st.requestor and not st.sock.closed:
        return False
    if (st.prov.timer._start_time is not None) != r.artim:
        return False
    # what is handed to the user for a received PDU is that PDU
    if name in PEER_TYPE and e_ind == [PEER_TYPE[name]] and name not in ('p4', 'p4rest', 'p4part'):
        if ind[0].encode() != PEER[name]:
            return False
    return r.invariant()


# canonical histories reaching every protocol state (role, events)
PREFIX = {
    'acc_sta2': (False, []),
    'acc_sta3': (False, ['p1']),
    'acc_sta6': (False, ['p1', 'u2']),
    'acc_sta7': (False, ['p1', 'u2', 'u5']),
    'acc_sta8': (False, ['p1', 'u2', 'p5']),
    'acc_sta10': (False, ['p1', 'u2', 'u5', 'p5']),
    'acc_sta12': (False, ['p1', 'u2', 'u5', 'p5', 'p6']),
    'acc_sta13': (False, ['p1', 'u3']),
    'acc_sta6_partial': (False, ['p1', 'u2', 'p4part']),
    'req_sta1': (True, []),
    'req_sta5': (True, ['u1']),
    'req_sta6': (True, ['u1', 'p2']),
    'req_sta7': (True, ['u1', 'p2', 'u5']),
    'req_sta9': (True, ['u1', 'p2', 'u5', 'p5']),
    'req_sta11': (True, ['u1', 'p2', 'u5', 'p5', 'u6']),
    'req_sta13': (True, ['u1', 'p2', 'u7']),
}


def start(key):
    requestor, events = PREFIX[key]
    st = Stepper(requestor)
    r = ref.RefUL(requestor)
    ok = True
    st.delta()
    for name in events:
        exp = ref_apply(r, name)
        st.inject(name)
        ok = ok and exp is not None and agree(st, r, name, exp)
    return st, r, ok


ALPH_REQ1 = ['u1'] + ALPHABET


def _depth():
    return 3 if tier() == 'thorough' else 2


def ref_advance(r, dt):
    """the reference's clock moves on by dt: -> expected delta, or 'boundary' when the ARTIM timer has then been
    running for exactly its limit (whether that instant already counts as expired is left to the implementation)"""
    el = r.elapsed_after(dt)
    r.now = r.now + dt
    if el is None or el < ARTIM_LIMIT:
        return [], []
    if el == ARTIM_LIMIT:
        return 'boundary'
    return r.step(18)


@cond(bounds='from each protocol state reached by a canonical history (16 instances: acceptor Sta2,3,6,7,8,10,12,13 and '
             'mid-message; requestor Sta1,5,6,7,9,11,13): every sequence of 2 (quick) / 3 (thorough) steps, each step = '
             'the clock advances by a SYMBOLIC amount dt in 0..30 s (ARTIM expiry decided by the solver against the '
             'instant of the last start / restart of the reference timer), then one event chosen by a symbolic selector '
             'from the 20-event alphabet (incl. a connection reset) (events that cannot occur / are not legal in the reference state are '
             'skipped); provider compared with the reference machine after every advance and every event',
      family=[dict(start=k) for k in sorted(PREFIX)], timeout=400, thorough_timeout=2400)
def lockstep(e1: int, e2: int, e3: int, dt1: int, dt2: int, dt3: int) -> bool:
    """
    pre: 0 <= e1 < len(ALPH_REQ1) and 0 <= e2 < len(ALPH_REQ1) and 0 <= e3 < len(ALPH_REQ1)
    pre: 0 <= dt1 <= 30 and 0 <= dt2 <= 30 and 0 <= dt3 <= 30
    pre: _depth() == 3 or (e3 == 0 and dt3 == 0)
    post: _
    """
    with sim._no_tracing():               # the canonical prefix is concrete: run it outside the tracer
        st, r, ok = start(fam('start'))
    if not ok:
        return False
    n = 0
    for e, dt in ((e1, dt1), (e2, dt2), (e3, dt3))[:_depth()]:
        name = ALPH_REQ1[pick(e, 0, len(ALPH_REQ1) - 1)]
        running = r.artim
        exp = ref_advance(r, dt)
        if exp == 'boundary':
            return True
        if running:
            st.advance(dt)
            if not agree(st, r, 'tick', exp):
                return False
        else:
            st.clock.now = st.clock.now + dt      # a timer wrongly left running shows up at the next event
        exp = None
        try:
            exp = ref_apply(r, name)
        except ref.Undefined:
            exp = None
        if exp is None:
            continue                      # cannot occur here: skip (the history is shorter)
        st.inject(name)
        if not agree(st, r, name, exp):
            return False
        n += 1
    deep(n == _depth())
    return True


def ref_apply_glued(r, first, second):
    """two peer events in one segment: the reference handles them one after the other; what arrives after the
    reference has closed the transport connection is discarded unread"""
    a = ref_apply(r, first)
    if a is None:
        return None
    if second == 'preset':
        a = ([], a[1])                    # nothing written after the reset reaches the peer: not compared
    if not r.transport:
        return a                          # the second event is never looked at
    b = ref_apply(r, second)
    if b is None:
        return None
    return a[0] + b[0], a[1] + b[1]


@cond(bounds='from each of the 16 start states: every ordered PAIR of peer events (7 PDU types, partial message / rest, '
             'unrecognised PDU, close, connection reset; symbolic selectors) delivered in ONE transport segment, followed by one further '
             'event of the full alphabet (thorough tier); compared with the reference machine handling them one after '
             'the other (bytes behind a PDU that ends the association are discarded)',
      family=[dict(start=k) for k in sorted(PREFIX) if k != 'req_sta1'], timeout=300, thorough_timeout=1800)
def glued(e1: int, e2: int, e3: int) -> bool:
    """
    pre: 0 <= e1 < len(PEER_EVENTS) - 2 and 0 <= e2 < len(PEER_EVENTS) and 0 <= e3 < len(ALPHABET)
    pre: _depth() == 3 or e3 == 0
    post: _
    """
    with sim._no_tracing():
        st, r, ok = start(fam('start'))
    if not ok:
        return False
    first = PEER_EVENTS[pick(e1, 0, len(PEER_EVENTS) - 3)]
    second = PEER_EVENTS[pick(e2, 0, len(PEER_EVENTS) - 1)]
    try:
        exp = ref_apply_glued(r, first, second)
    except ref.Undefined:
        exp = None
    if exp is None:
        return True                       # not a conversation a conformant peer can produce
    st.inject_glued(first, second)
    if not agree(st, r, 'glued', exp):
        return False
    if _depth() == 3:
        name = ALPHABET[pick(e3, 0, len(ALPHABET) - 1)]
        try:
            exp = ref_apply(r, name)
        except ref.Undefined:
            exp = None
        if exp is not None:
            st.inject(name)
            if not agree(st, r, name, exp):
                return False
    deep(True)
    return True


def _explain_step(st, r, name, exp, out):
    sent = st.sock.sent[st.n_sent:]
    ind = st.prov.to_service_user.log[st.n_ind:]
    okk = agree(st, r, name, exp)
    out.append('%s: reference -> Sta%d sends %r indicates %r transport=%r artim=%r | provider -> Sta%d sends %r '
               'indicates %r transport=%r artim=%r err=%r %s' % (
                   name, r.state, exp[0], exp[1], r.transport, r.artim, st.state(), [s[0] for s in sent],
                   kinds(ind), st.prov.dul_socket is not None, st.prov.timer._start_time is not None, st.err,
                   'OK' if okk else '<-- DISAGREE'))
    return okk


def explain(cname, args, famv):
    st, r, ok = start(famv['start'])
    out = ['prefix %s agreed: %r' % (PREFIX[famv['start']][1], ok)]
    if cname == 'glued':
        first, second = PEER_EVENTS[args['e1']], PEER_EVENTS[args['e2']]
        try:
            exp = ref_apply_glued(r, first, second)
        except ref.Undefined:
            exp = None
        if exp is None:
            return 'not producible'
        st.inject_glued(first, second)
        _explain_step(st, r, first + '+' + second + ' in one segment', exp, out)
        return '\n'.join(out)
    for e, dt in ((args['e1'], args['dt1']), (args['e2'], args['dt2']), (args['e3'], args['dt3']))[:_depth()]:
        name = ALPH_REQ1[e]
        exp = ref_advance(r, dt)
        if exp == 'boundary':
            out.append('boundary')
            break
        st.advance(dt)
        if not _explain_step(st, r, 'clock +%d s' % dt, exp, out):
            break
        try:
            exp = ref_apply(r, name)
        except ref.Undefined:
            exp = None
        if exp is None:
            out.append('%s: cannot occur / not legal in reference Sta%d - skipped' % (name, r.state))
            continue
        st.inject(name)
        if not _explain_step(st, r, name, exp, out):
            break
    return '\n'.join(out)
