"""C08 -- transmitted command sets are well-formed (dimsemessages.py, asceprovider.py, dsutils.py)."""
import warnings
import vt
vt.use_repo()
warnings.simplefilter('ignore')
from vt import api
from vt.api import cond, deep, fam, tier, pick
from vt.refs import ivrle
from vt.harness.pdus import UIDCH
from vt.harness.c06 import make_assoc, MSG_CLASSES
from pynetdicom2 import dimsemessages as dm

ASSUMPTIONS = [
    'messages are built through the public message classes; fields are assigned through the command data set '
    'keywords listed in command_fields (what the library\'s own providers do via the dimse properties); "unset" = the '
    'empty value the constructor leaves',
    'maximum PDU length 16384 (one fragment) - fragmentation is C06\'s subject',
]

# PS3.7 9.3 / 10.3 command field codes, transcribed
PS37_COMMAND_FIELD = {
    'CStoreRQMessage': 0x0001, 'CStoreRSPMessage': 0x8001, 'CGetRQMessage': 0x0010, 'CGetRSPMessage': 0x8010,
    'CFindRQMessage': 0x0020, 'CFindRSPMessage': 0x8020, 'CMoveRQMessage': 0x0021, 'CMoveRSPMessage': 0x8021,
    'CEchoRQMessage': 0x0030, 'CEchoRSPMessage': 0x8030, 'CCancelRQMessage': 0x0FFF,
    'NEventReportRQMessage': 0x0100, 'NEventReportRSPMessage': 0x8100, 'NGetRQMessage': 0x0110,
    'NGetRSPMessage': 0x8110, 'NSetRQMessage': 0x0120, 'NSetRSPMessage': 0x8120, 'NActionRQMessage': 0x0130,
    'NActionRSPMessage': 0x8130, 'NCreateRQMessage': 0x0140, 'NCreateRSPMessage': 0x8140,
    'NDeleteRQMessage': 0x0150, 'NDeleteRSPMessage': 0x8150,
}

UID_FIELDS = ('AffectedSOPClassUID', 'RequestedSOPClassUID', 'AffectedSOPInstanceUID', 'RequestedSOPInstanceUID')
US_ID_FIELDS = ('MessageID', 'MessageIDBeingRespondedTo', 'MoveOriginatorMessageID')
AE_FIELDS = ('MoveDestination', 'MoveOriginatorApplicationEntityTitle')


def set_fields(msg, mid, st, n, opt):
    """Assign the class's fields: UIDs of length n, ids = mid, status/priority/counters = st; optional ones iff opt."""
    n = pick(n, 1, 64)
    for f in msg.command_fields:
        if f == 'CommandGroupLength':
            continue
        if f in UID_FIELDS:
            if f.endswith('ClassUID') or opt:
                setattr(msg.command_set, f, UIDCH[:n])
        elif f in US_ID_FIELDS:
            if f != 'MoveOriginatorMessageID' or opt:
                setattr(msg.command_set, f, mid)
        elif f in AE_FIELDS:
            if opt:
                setattr(msg.command_set, f, 'DEST_AE')
        elif f == 'AttributeIdentifierList':
            if opt:
                setattr(msg.command_set, f, [0x00100010, 0x00100020])
        else:
            # Status, Priority, EventTypeID, ActionTypeID, NumberOf*Suboperations: US
            if f == 'Status' or opt:
                setattr(msg.command_set, f, st)


EXTRA_COMMENTS = [None, 'x', 'no such instance', u'Ger\xe4t gest\xf6rt', u'\u30a8\u30e9\u30fc']


def add_extra(msg, sel):
    """optional status-related elements an application adds to a response AFTER the message object was built, in
    descending tag order: Error Comment (0000,0902) with ASCII / Latin-1 / non-Latin text, Offending Element
    (0000,0901), Error ID (0000,0903) - PS3.7 C.x; they have to end up in ascending tag order and inside the group length"""
    if not sel:
        return
    cs = msg.command_set
    cs.ErrorID = 7
    cs.ErrorComment = EXTRA_COMMENTS[sel]
    cs.OffendingElement = [0x00100020]


def sent_ok(assoc, cls, cid, expect_data, index=-1, mid=None):
    """The generator queued by the send number `index`: command fragments joined form a well-formed command group."""
    g = assoc.dul.sent[index]
    pdus = g if isinstance(g, list) else list(g)
    assoc.dul.sent[index] = pdus
    cmd = []
    ndata = 0
    for p in pdus:
        v = p.data_value_items[0]
        hdr = v.data_value[0]
        if hdr in (1, 3):
            cmd.append(v.data_value[1:])
        else:
            ndata += 1
    raw = b''.join(cmd)
    if not ivrle.command_group_ok(raw):
        return False
    elems = ivrle.parse(raw)
    cf = ivrle.find(elems, 0, 0x0100)
    dst = ivrle.find(elems, 0, 0x0800)
    if cf is None or dst is None:
        return False
    if ivrle.us(cf) != PS37_COMMAND_FIELD[cls.__name__]:
        return False
    no_ds = ivrle.us(dst) == 0x0101
    if mid is not None:
        # the message says what it said when it was sent
        m = ivrle.find(elems, 0, 0x0110)
        if m is None:
            m = ivrle.find(elems, 0, 0x0120)
        if m is not None and ivrle.us(m) != mid:
            return False
    return no_ds == (ndata == 0) and (ndata > 0) == expect_data


@cond(bounds='each of the 23 message classes, one send: message id and status/priority/counter fields symbolic over '
             '0..65535, UID length symbolic 1..4 (quick) / 1..64 (thorough) so that odd/even padding is exercised, '
             'optional fields set/unset symbolic, data set absent/present symbolic; the context the message is sent on was '
             'accepted with implicit LE / explicit LE / explicit BE (symbolic) - the command set is implicit LE regardless',
      family={'cls': list(range(23))}, timeout=120, thorough_timeout=900)
def command_set_wellformed(mid: int, st: int, n: int, opt: bool, ds1: bool, tsi: int) -> bool:
    """
    pre: 0 <= mid <= 65535 and 0 <= st <= 65535 and 1 <= n <= _nmax() and 0 <= tsi <= 2
    post: _
    """
    cls = MSG_CLASSES[fam('cls')]
    msg = cls()
    a = make_assoc(16384, pick(tsi, 0, 2))
    set_fields(msg, mid, st, n, opt)
    msg.data_set = DS1 if ds1 else None
    a.send(msg, 3)
    ok = sent_ok(a, cls, 3, ds1)
    deep(ok and n == 3 and mid == 65535)
    return ok


RSP_CLASSES = [i for i, c in enumerate(MSG_CLASSES) if c.__name__.endswith('RSPMessage')]


@cond(bounds='each of the 11 response classes with status-related elements added AFTER the message object was built, in '
             'descending tag order (Error ID, Error Comment with ASCII / Latin-1 / Japanese text by symbolic selector, '
             'Offending Element; PS3.7 Annex C): message id and status symbolic 0..65535, data set present / absent: the '
             'transmitted command group is still well-formed (ascending tags, group length = octets following)',
      family={'cls': RSP_CLASSES}, timeout=180)
def extra_status_elements(mid: int, st: int, extra: int, ds1: bool) -> bool:
    """
    pre: 0 <= mid <= 65535 and 0 <= st <= 65535 and 1 <= extra <= 4
    post: _
    """
    cls = MSG_CLASSES[fam('cls')]
    msg = cls()
    a = make_assoc(16384)
    set_fields(msg, mid, st, 2, False)
    add_extra(msg, pick(extra, 1, 4))
    msg.data_set = DS1 if ds1 else None
    a.send(msg, 3)
    ok = sent_ok(a, cls, 3, ds1)
    deep(ok and extra == 4)
    return ok


DS1 = b'\x08\x00\x18\x00\x02\x00\x00\x001.'
DS2 = b'\x08\x00\x18\x00\x04\x00\x00\x001.2.'


@cond(bounds='each of the 23 message classes: the same message object sent twice (three times in the thorough tier) '
             'with message id, status, UID length (2 -> 1..4, so that the encoded size changes), optional fields (unset -> set) and data-set presence (present / None / empty) changed '
             'between sends (all symbolic); schedule symbolic: the provider thread drains each queued message at once, or all '
             'of them only after the last send (quick tier: lagging schedule for the 8 classes the library itself re-sends)', family={'cls': list(range(23))}, timeout=180, thorough_timeout=900)
def resend_wellformed(mid: int, mid2: int, n2: int, ds1: bool, ds2: int, opt1: bool, lazy: bool) -> bool:
    """
    pre: 0 <= mid <= 65535 and 0 <= mid2 <= 65535 and 1 <= n2 <= 4 and 0 <= ds2 <= 2
    pre: _lazy_in_scope(lazy)
    post: _
    """
    cls = MSG_CLASSES[fam('cls')]
    msg = cls()
    a = make_assoc(16384)
    set_fields(msg, mid, mid2, 2, opt1)
    msg.data_set = DS1 if ds1 else None
    a.send(msg, 3)
    ok = lazy or sent_ok(a, cls, 3, ds1, 0, mid)
    # second send of the same object with changed fields (as the C-FIND / C-MOVE providers do)
    set_fields(msg, mid2, mid, n2, True)
    msg.data_set = (DS2, None, b'')[ds2]
    a.send(msg, 3)
    ok = ok and (lazy or sent_ok(a, cls, 3, ds2 == 0, 1, mid2))
    if tier() == 'thorough':
        set_fields(msg, mid, mid, 3, True)
        msg.data_set = DS1
        a.send(msg, 3)
        ok = ok and (lazy or sent_ok(a, cls, 3, True, 2, mid))
    if lazy:
        # the provider thread takes the queued messages only now: each must still be what it was when it was sent
        ok = ok and sent_ok(a, cls, 3, ds1, 0, mid) and sent_ok(a, cls, 3, ds2 == 0, 1, mid2)
        if tier() == 'thorough':
            ok = ok and sent_ok(a, cls, 3, True, 2, mid)
    deep(ok and ds2 == 2 and n2 == 1 and (lazy or not _lazy_in_scope(True)))
    return ok


# message classes whose objects the library's own providers send more than once (quick tier: the lagging schedule is
# explored for these; thorough tier: for all 23 classes)
@cond(bounds='each of the 23 message classes: TWO message objects of the class alive at the same time (a provider that prepares '
             'its "match" and its "final" response up front; two acceptor threads building the same response class): A is '
             'built and filled (message id / fields symbolic, data set present / absent symbolic), then B is built and '
             'filled with its own values (symbolic, data set the opposite or the same), then they are sent in either order '
             '(symbolic): each transmitted command set describes ITS message - own message id, own status, flag "no data set" '
             'exactly when no data fragments follow (quick tier: every third class + C-FIND-RSP; thorough: all 23)',
      family=lambda t: [dict(cls=i) for i in range(23)
                        if t == 'thorough' or i % 3 == 0 or MSG_CLASSES[i].__name__ == 'CFindRSPMessage'], timeout=180)
def two_live_messages(mid_a: int, mid_b: int, st_a: int, st_b: int, ds_a: bool, ds_b: bool, b_first: bool) -> bool:
    """
    pre: 0 <= mid_a <= 65535 and 0 <= mid_b <= 65535 and 0 <= st_a <= 65535 and 0 <= st_b <= 65535
    post: _
    """
    cls = MSG_CLASSES[fam('cls')]
    assoc = make_assoc(16384, 0)
    a = cls()
    set_fields(a, mid_a, st_a, 2, True)
    a.data_set = DS1 if ds_a else None
    b = cls()
    set_fields(b, mid_b, st_b, 3, False)
    b.data_set = DS1 if ds_b else None
    order = [(b, mid_b, st_b, ds_b), (a, mid_a, st_a, ds_a)] if b_first else [(a, mid_a, st_a, ds_a), (b, mid_b, st_b, ds_b)]
    ok = True
    for i, (m, mid, st, ds) in enumerate(order):
        assoc.send(m, 3)
        ok = ok and sent_ok(assoc, cls, 3, ds, index=i, mid=mid)
        if ok and 'Status' in m.command_fields:
            elems = ivrle.parse(b''.join(p.data_value_items[0].data_value[1:] for p in assoc.dul.sent[i]
                                         if p.data_value_items[0].data_value[0] in (1, 3)))
            sv = ivrle.find(elems, 0, 0x0900)
            ok = ok and sv is not None and ivrle.us(sv) == st
    deep(ok and ds_a and not ds_b and not b_first)
    return ok


RESENT_BY_LIBRARY = ('CFindRSPMessage', 'CMoveRSPMessage', 'CGetRSPMessage', 'CStoreRQMessage', 'CStoreRSPMessage',
                     'CEchoRSPMessage', 'NActionRSPMessage', 'NEventReportRQMessage')


def _lazy_in_scope(lazy):
    return (not lazy) or tier() == 'thorough' or MSG_CLASSES[fam('cls')].__name__ in RESENT_BY_LIBRARY


def _nmax():
    return 64 if tier() == 'thorough' else 4


def explain(cname, args, famv):
    cls = MSG_CLASSES[famv['cls']]
    msg = cls()
    a = make_assoc(16384)
    out = []

    def show(i):
        pdus = list(a.dul.sent[-1])
        raw = b''.join(p.data_value_items[0].data_value[1:] for p in pdus if p.data_value_items[0].data_value[0] in (1, 3))
        el = ivrle.parse(raw)
        gl = ivrle.ul(el[0][2]) if el and len(el[0][2]) == 4 else None
        out.append('%s send %s: group length element says %r, bytes following it: %d, data fragments: %d, '
                   'data-set-type: %r' % (cls.__name__, i, gl, len(raw) - 8 - len(el[0][2]) if el else -1,
                                           sum(1 for p in pdus if p.data_value_items[0].data_value[0] in (0, 2)),
                                           ivrle.find(el, 0, 0x0800) if el else None))
    if cname == 'two_live_messages':
        set_fields(msg, args['mid_a'], args['st_a'], 2, True)
        msg.data_set = DS1 if args['ds_a'] else None
        other = cls()
        set_fields(other, args['mid_b'], args['st_b'], 3, False)
        other.data_set = DS1 if args['ds_b'] else None
        for i, m in enumerate([other, msg] if args['b_first'] else [msg, other]):
            a.send(m, 3)
            show('of A' if m is msg else 'of B')
        return 'A: message id %d, status %d, data set %r; B: message id %d, status %d, data set %r\n' % (
            args['mid_a'], args['st_a'], args['ds_a'], args['mid_b'], args['st_b'], args['ds_b']) + '\n'.join(out)
    if cname == 'extra_status_elements':
        return 'see the condition source'
    if cname == 'command_set_wellformed':
        set_fields(msg, args['mid'], args['st'], args['n'], args['opt'])
        msg.data_set = DS1 if args['ds1'] else None
        a.send(msg, 3)
        show(1)
    else:
        set_fields(msg, args['mid'], args['mid2'], 2, args['opt1'])
        msg.data_set = DS1 if args['ds1'] else None
        a.send(msg, 3)
        show(1)
        set_fields(msg, args['mid2'], args['mid'], args['n2'], True)
        msg.data_set = (DS2, None, b'')[args['ds2']]
        a.send(msg, 3)
        show(2)
    return '\n'.join(out)
