"""C04 -- the state machine performs the PS3.8 Table 9-10 action and transition in every cell (fsm.py)."""
import vt
vt.use_repo()
from vt import api, sim
from vt.api import cond, deep, fam
from vt.refs import table_9_10 as ref
from pynetdicom2 import pdu, fsm, dimsemessages as dm

ASSUMPTIONS = [
    'the state machine is driven through StateMachine.action() on a real DULServiceProvider whose thread is not '
    'started; socket, select, queues and timer are the recording stand-ins of vt/sim.py; fsm.socket is a stand-in '
    'whose socket() returns a recording socket (AE-1)',
    'oracle = vt/refs/table_9_10.py (transcribed from PS3.8 Tables 9-6..9-10); where the standard does not fix a '
    'field (abort source/reason of provider-generated aborts) any value is accepted',
    'role requestor = provider constructed without a socket (the public constructor contract), acceptor = with one',
]


def _echo_pdata(cid):
    """P-DATA-TF PDU carrying one complete C-ECHO-RQ (command set only, last fragment)."""
    m = dm.CEchoRQMessage()
    m.message_id = 7
    m.sop_class_uid = '1.2.840.10008.1.1'
    m.set_length()
    pdus = list(m.encode(cid, 16384))
    assert len(pdus) == 1
    return pdus[0]


def make_primitive(evt, b1, b2, data):
    """The PDU that accompanies event `evt` (1-based) as current primitive; None if the event carries none."""
    k = ref.EVENT_PDU.get(evt)
    if k == 1:
        p = pdu.AAssociateRqPDU('CALLED', 'CALLING', [pdu.ApplicationContextItem('1.2.840.10008.3.1.1.1')],
                                reserved1=b1)
        p.called_presentation_address = ('peer.example', 104 + b2)
        return p
    if k == 2:
        return pdu.AAssociateAcPDU('CALLED', 'CALLING', [pdu.ApplicationContextItem('1.2.840.10008.3.1.1.1')],
                                   reserved1=b1)
    if k == 3:
        return pdu.AAssociateRjPDU(1 + (b1 & 1), b2, b1)
    if k == 4:
        if evt == 10:
            return _echo_pdata(1 + 2 * (b1 & 127))
        return pdu.PDataTfPDU([pdu.PresentationDataValueItem(b1, data)], b2)
    if k == 5:
        return pdu.AReleaseRqPDU(b1, b2)
    if k == 6:
        return pdu.AReleaseRpPDU(b1, b2)
    if k == 7:
        return pdu.AAbortPDU(b1, b2)
    return None


def is_pdu_bytes(raw, typ):
    return len(raw) == 10 and raw[0] == typ and raw[2:6] == b'\x00\x00\x00\x04'


@cond(bounds='one instance per event 1..19; protocol state symbolic over all 13 states (so all 247 cells, defined '
             'and undefined), role requestor/acceptor symbolic, ARTIM running/stopped before the action symbolic, two '
             'symbolic bytes in the fields of the triggering PDU, symbolic P-DATA payload (<= 3 bytes); for events '
             'without a PDU of their own the primitive slot holds None or a stale PDU (symbolic choice); instances '
             '"reset": the cells whose action closes the transport connection without writing to it (AE-4, AR-3, AA-2, '
             'AA-3), executed on a connection the peer has already RESET (what was received before is still '
             'readable, shutdown() fails with ENOTCONN, writes fail): same indication, connection closed and released, same '
             'next state',
      family=[dict(evt=e) for e in range(1, 20)] + [dict(evt=e, reset=True) for e in (4, 13, 15, 16, 18)], timeout=120)
def cell(state: int, requestor: bool, timer_running: bool, stale: bool, b1: int, b2: int, data: bytes) -> bool:
    """
    pre: 0 <= state <= 12 and 0 <= b1 <= 255 and 0 <= b2 <= 255 and 1 <= len(data) <= 3
    post: _
    """
    evt = fam('evt')
    sock = sim.SimSocket()
    prov = sim.make_provider(None if requestor else sock)
    sm = prov.state_machine
    timer = sim.RecTimer(timer_running)
    prov.timer = sm.timer = timer
    sockmod = sim.SocketModule()
    fsm.socket = sockmod
    have_sock = not (evt == 1 and state == 0)     # only AE-1 starts without a transport connection
    prov.dul_socket = sock if have_sock else None
    prim = make_primitive(evt, b1, b2, data)
    if prim is None and stale:
        prim = pdu.AReleaseRqPDU(b1, b2)
    prov.primitive = prim
    prov.event.clear()
    sm.current_state = state
    exp = ref.effect(evt, state + 1, requestor)
    if fam('reset', False):
        if not (exp is not None and exp[3] and exp[1] is None):
            return True                       # only the cells that close without writing
        sock.peer_reset = True
    raised = False
    try:
        sm.action(evt - 1)
    except Exception:
        raised = True
    sent = sock.sent
    ind = prov.to_service_user.log
    if exp is None:
        # undefined cell: no effect on the wire, the user, the connection, the timer, the state
        ok = (sent == [] and ind == [] and not sock.closed and sockmod.created == []
              and timer.ops == [] and sm.current_state == state
              and prov.dul_socket is (sock if have_sock else None))
        deep(ok and raised and state == 9)
        return ok
    if raised:
        return False
    act, e_send, e_ind, e_close, e_timer, e_next = exp
    ok = sm.current_state == e_next - 1
    # -- wire
    if e_send is None:
        ok = ok and sent == []
    elif e_send == 'primitive':
        ok = ok and len(sent) == 1 and sent[0] == prim.encode()
    elif e_send == 'A-RELEASE-RQ':
        ok = ok and len(sent) == 1 and is_pdu_bytes(sent[0], 5)
    elif e_send == 'A-RELEASE-RP':
        ok = ok and len(sent) == 1 and is_pdu_bytes(sent[0], 6)
    elif e_send == 'A-ABORT':
        ok = ok and len(sent) == 1 and is_pdu_bytes(sent[0], 7)
    elif e_send == 'A-ABORT-primitive-or-new':
        if evt == 15:
            ok = ok and len(sent) == 1 and sent[0] == prim.encode() and is_pdu_bytes(sent[0], 7)
        else:
            ok = ok and len(sent) == 1 and is_pdu_bytes(sent[0], 7)
    # -- user
    if e_ind is None:
        ok = ok and ind == []
    elif e_ind == 'pdu':
        ok = ok and len(ind) == 1 and ind[0] is prim
    elif e_ind == 'P-ABORT':
        ok = ok and len(ind) == 1 and getattr(ind[0], 'pdu_type', None) == 7
    elif e_ind == 'P-DATA':
        ok = ok and len(ind) == 1 and isinstance(ind[0], tuple) and ind[0][1] == 1 + 2 * (b1 & 127) \
            and ind[0][0].command_field == 0x0030
    # -- connection
    if act == 'AE-1':
        ok = ok and len(sockmod.created) == 1 and prov.dul_socket is sockmod.created[0] \
            and sockmod.created[0].connected_to == ('peer.example', 104 + b2)
    else:
        ok = ok and sockmod.created == []
        if e_close:
            ok = ok and sock.closed and prov.dul_socket is None
        else:
            ok = ok and not sock.closed and prov.dul_socket is sock
    # -- ARTIM
    if e_timer is None:
        ok = ok and timer.ops == [] and timer.running == timer_running
    elif e_timer == 'stop':
        ok = ok and not timer.running
    else:
        ok = ok and timer.running
    deep(ok and state >= 1)
    return ok


@cond(bounds='Evt10 (P-DATA-TF received) in every state x what the PDU carries: one PDV whose message control header is a '
             'symbolic byte 0..255 followed by 0..2 symbolic bytes. Control 1 = a command fragment of a message that is '
             'not complete yet (no indication, same state); 0 / 2 = data fragment before any command (either reaction accepted); anything else - incl. a "last command fragment" that cannot '
             'be a command set - is an invalid PDU: the effect of Evt19 in that state (AA-8 in Sta6 / Sta7). Role and '
             'ARTIM state symbolic', timeout=180)
def pdata_content_cell(state: int, requestor: bool, timer_running: bool, ctrl: int, data: bytes) -> bool:
    """
    pre: 0 <= state <= 12 and 0 <= ctrl <= 255 and len(data) <= 2
    post: _
    """
    sock = sim.SimSocket()
    prov = sim.make_provider(None if requestor else sock)
    sm = prov.state_machine
    timer = sim.RecTimer(timer_running)
    prov.timer = sm.timer = timer
    fsm.socket = sim.SocketModule()
    prov.dul_socket = sock
    prim = pdu.PDataTfPDU([pdu.PresentationDataValueItem(5, bytes([ctrl]) + data)])
    prov.primitive = prim
    prov.event.clear()
    sm.current_state = state
    fragment_only = ctrl == 1
    dont_care = ctrl in (0, 2)            # data fragment before any command fragment: the peer violates PS3.7 6.3.1;
                                          # ignoring it and aborting are both acceptable
    in_data_transfer = state + 1 in (6, 7)
    if in_data_transfer and not fragment_only:
        exp = ref.effect(19, state + 1, requestor)
    else:
        exp = ref.effect(10, state + 1, requestor)
    raised = False
    try:
        sm.action(10 - 1)
    except Exception:
        raised = True
    sent, ind = sock.sent, prov.to_service_user.log
    if exp is None:
        ok = (sent == [] and ind == [] and not sock.closed and timer.ops == [] and sm.current_state == state)
        deep(ok and raised)
        return ok
    if raised:
        return False
    if in_data_transfer and dont_care:
        return True
    act, e_send, e_ind, e_close, e_timer, e_next = exp
    ok = sm.current_state == e_next - 1
    if in_data_transfer and fragment_only:
        ok = ok and sent == [] and ind == [] and timer.ops == [] and not sock.closed
        deep(ok and len(data) == 2)
        return ok
    if e_send is None:
        ok = ok and sent == []
    else:
        ok = ok and len(sent) == 1 and is_pdu_bytes(sent[0], 7)
    if e_ind is None:
        ok = ok and ind == []
    else:
        ok = ok and len(ind) == 1 and getattr(ind[0], 'pdu_type', None) == 7
    ok = ok and (sock.closed and prov.dul_socket is None if e_close else not sock.closed and prov.dul_socket is sock)
    if e_timer is None:
        ok = ok and timer.ops == [] and timer.running == timer_running
    elif e_timer == 'stop':
        ok = ok and not timer.running
    else:
        ok = ok and timer.running
    deep(ok and in_data_transfer and ctrl == 3)
    return ok


def _pdu_type_of(evt):
    return ref.EVENT_PDU.get(evt)


def _pair(evt1, evt2, state, requestor, timer_running):
    """two consecutive actions from (state, role, ARTIM) on one state machine, compared with the reference machine"""
    from vt.refs import ul_machine as ulm
    r = ulm.RefUL(True)
    r.requestor = requestor
    r.state, r.artim, r.transport = state + 1, timer_running, not (evt1 == 1 and state == 0)
    sock = sim.SimSocket()
    prov = sim.make_provider(None if requestor else sock)
    sm = prov.state_machine
    timer = sim.RecTimer(timer_running)
    prov.timer = sm.timer = timer
    sockmod = sim.SocketModule()
    sockmod.socket = lambda *a: sock
    fsm.socket = sockmod
    prov.dul_socket = sock if r.transport else None
    prov.event.clear()
    sm.current_state = state
    want_sent, want_ind = [], []
    for evt in (evt1, evt2):
        try:
            s_, i_ = r.step(evt, _pdu_type_of(evt))
        except ulm.Undefined:
            return None                      # not a defined sequence
        if evt == 2 and not r.transport:
            return None
        want_sent += s_
        want_ind += i_
        prov.primitive = make_primitive(evt, 1, 2, b'\x03\x00')
        if evt == 17 and prov.dul_socket is not None:
            prov.dul_socket.close()          # what the reader does before it raises Evt17
            prov.dul_socket = None
        try:
            sm.action(evt - 1)
        except Exception:
            return False
        if sm.current_state != r.state - 1:
            return False
    got_sent = [x[0] for x in sock.sent]
    got_ind = ['dimse' if isinstance(o, tuple) else getattr(o, 'pdu_type', '?') for o in prov.to_service_user.log]
    return (got_sent == want_sent and got_ind == want_ind and timer.running == r.artim
            and (prov.dul_socket is not None) == r.transport)


@cond(bounds='(thorough tier) every defined SEQUENCE OF TWO events: first event per instance, second event and the start state '
             'symbolic selectors (19 x 13), role and ARTIM pre-state symbolic: the state machine object carries exactly '
             'the reference machine\'s state, timer, connection and outputs from the first action into the second',
      family={'evt': list(range(1, 20))}, timeout=240, thorough_timeout=600, tiers=('thorough',))
def cell_pair(evt2: int, state: int, requestor: bool, timer_running: bool) -> bool:
    """
    pre: 1 <= evt2 <= 19 and 0 <= state <= 12
    post: _
    """
    from vt.api import pick
    evt2, state = pick(evt2, 1, 19), pick(state, 0, 12)
    requestor, timer_running = bool(pick(int(requestor), 0, 1)), bool(pick(int(timer_running), 0, 1))
    with sim._no_tracing():
        res = _pair(fam('evt'), evt2, state, requestor, timer_running)
    if res is None:
        return True
    deep(res)
    return res


def explain(cname, args, famv):
    if cname == 'cell_pair':
        return 'Evt%d then Evt%d from Sta%d (%s, ARTIM %s): the state machine disagrees with the reference machine' % (
            famv['evt'], args['evt2'], args['state'] + 1, 'requestor' if args['requestor'] else 'acceptor',
            'running' if args['timer_running'] else 'stopped')
    if cname == 'pdata_content_cell':
        return 'P-DATA-TF with control byte %d + %r in Sta%d: fragment of an incomplete message -> nothing happens; ' \
               'otherwise invalid PDU -> Evt19 effect %r' % (args['ctrl'], args['data'], args['state'] + 1,
                                                            ref.effect(19, args['state'] + 1, args['requestor']))
    evt, state = famv['evt'], args['state'] + 1
    return 'Evt%d in Sta%d as %s: PS3.8 prescribes %r (action, send, indicate, close, timer, next)' % (
        evt, state, 'requestor' if args['requestor'] else 'acceptor', ref.effect(evt, state, args['requestor']))
