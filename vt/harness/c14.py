"""C14 -- rejection, abort and release are reported faithfully to both sides."""
import warnings
import vt
vt.use_repo()
warnings.simplefilter('ignore')
from vt import api
from vt.api import cond, deep, fam, tier, pick
from vt.harness import assoc as A
from pynetdicom2 import applicationentity, asceprovider, pdu, exceptions

ASSUMPTIONS = [
    'associations run without provider threads: asceprovider.dulprovider.DULServiceProvider is replaced by a scripted '
    'recorder (send records, receive replays); time.sleep in asceprovider is a no-op',
    'the requesting side goes through the real AEBase.request_association context manager on a real ClientAE object',
    'A-ASSOCIATE-RJ / A-ABORT bytes are read back by field offsets of PS3.8 9.3.4 / 9.3.8 (independent of pdu.py)',
]

VERIF_SOP = '1.2.840.10008.1.1'
TS = '1.2.840.10008.1.2'
REMOTE = {'aet': 'REMOTE', 'address': 'peer', 'port': 104}


class _NoSleep(object):
    @staticmethod
    def sleep(dt):
        pass

    @staticmethod
    def time():
        return 0


class _DulModule(object):
    """stands for the dulprovider module inside asceprovider: hands out scripted providers"""
    script = ()
    created = []

    @classmethod
    def DULServiceProvider(cls, store_in_file, get_file_cb, dul_socket=None, max_pdu_length=65536):
        d = A.ScriptDul(cls.script)
        cls.created.append(d)
        return d


def _patch(script):
    _DulModule.script = list(script)
    _DulModule.created = []
    asceprovider.dulprovider = _DulModule
    asceprovider.time = _NoSleep


def KMAX():
    """number of DIMSE exchanges before the ending: 0..2 in the quick tier, 0..5 in the thorough tier"""
    return 5 if tier() == 'thorough' else 2


class Svc(object):
    sop_classes = [VERIF_SOP]

    def __init__(self):
        self.calls = 0

    def __call__(self, asce, ctx, *a):
        self.calls += 1
        return 'served'


def client_ae(svc):
    ae = object.__new__(applicationentity.ClientAE)
    applicationentity.AEBase.__init__(ae, [TS], 16384)
    ae.local_ae = {'address': 'here', 'aet': 'LOCAL'}
    ae.add_scu(svc)
    return ae


def ac_reply():
    return pdu.AAssociateAcPDU('REMOTE', 'LOCAL', [pdu.ApplicationContextItem(A.APP_CTX),
                                                   pdu.PresentationContextItemAC(1, 0, pdu.TransferSyntaxSubItem(TS)),
                                                   A.user_info(16384)])


class Msg(object):
    sop_class_uid = VERIF_SOP


def types_sent(dul):
    return [getattr(x, 'pdu_type', 'dimse') for x in dul.sent]


# ------------------------------------------------------------------------------------------------
# refusal
# ------------------------------------------------------------------------------------------------

@cond(bounds='acceptor: the application hook refuses with (result, source, reason) each symbolic 0..255; the bytes of '
             'the A-ASSOCIATE-RJ handed to the provider carry exactly the triple; no service runs', timeout=120)
def acceptor_refuses(result: int, source: int, reason: int) -> bool:
    """
    pre: 0 <= result <= 255 and 0 <= source <= 255 and 0 <= reason <= 255
    post: _
    """
    svc = Svc()
    ae = A.StubAE('SCP', supported_ts=[TS], supported_scp={VERIF_SOP: svc})
    ae.reject_with = (result, source, reason)
    rq = pdu.AAssociateRqPDU('SCP', 'SCU', [pdu.ApplicationContextItem(A.APP_CTX),
                                            pdu.PresentationContextItemRQ(1, pdu.AbstractSyntaxSubItem(VERIF_SOP),
                                                                          [pdu.TransferSyntaxSubItem(TS)]),
                                            A.user_info(16384)])
    acc = A.make_acceptor(ae, 16384, [rq, (Msg(), 1)])
    asceprovider.time = _NoSleep
    raised = None
    try:
        acc.handle()
    except exceptions.AssociationRejectedError as e:
        raised = e
    sent = acc.dul.sent
    ok = len(sent) == 1 and getattr(sent[0], 'pdu_type', None) == 3
    if ok:
        raw = sent[0].encode()
        ok = len(raw) == 10 and raw[0] == 3 and raw[2:6] == b'\x00\x00\x00\x04' \
            and raw[7] == result and raw[8] == source and raw[9] == reason
    ok = ok and svc.calls == 0 and not acc.association_established and acc.dul.killed
    deep(ok and result == 2 and source == 3 and reason == 7)
    return ok


@cond(bounds='requestor: the peer answers A-ASSOCIATE-RJ with (result, source, reason) each symbolic 0..255; the error '
             'raised out of request_association carries the three values; the body never runs', timeout=120)
def requestor_sees_rejection(result: int, source: int, reason: int) -> bool:
    """
    pre: 0 <= result <= 255 and 0 <= source <= 255 and 0 <= reason <= 255
    post: _
    """
    svc = Svc()
    ae = client_ae(svc)
    rj = pdu.AAssociateRjPDU.decode(bytes([3, 0, 0, 0, 0, 4, 0, result, source, reason]))
    _patch([rj])
    entered = False
    err = None
    try:
        with ae.request_association(REMOTE) as assoc:
            entered = True
            assoc.get_scu(VERIF_SOP)(1)
    except exceptions.AssociationRejectedError as e:
        err = e
    ok = err is not None and err.result == result and err.source == source and err.diagnostic == reason
    ok = ok and not entered and svc.calls == 0
    dul = _DulModule.created[0]
    ok = ok and types_sent(dul) == [1] and dul.killed       # only the request went out: no release, no abort
    deep(ok and result == 1 and reason == 255)
    return ok


# ------------------------------------------------------------------------------------------------
# leaving a requested association
# ------------------------------------------------------------------------------------------------

@cond(bounds='requestor context manager: k = 0..2 (thorough: 0..5) DIMSE exchanges in the body (symbolic), then the body ends normally '
             'or raises an application exception at a symbolic point (before / between / after exchanges)', timeout=120)
def leave_release_or_abort(k: int, fails: bool, at: int) -> bool:
    """
    pre: 0 <= k <= KMAX() and 0 <= at <= k
    post: _
    """
    k, at = pick(k, 0, KMAX()), pick(at, 0, KMAX())
    svc = Svc()
    ae = client_ae(svc)
    _patch([ac_reply()] + [(Msg(), 1)] * k + [pdu.AReleaseRpPDU()])
    seen = None
    done = 0
    try:
        with ae.request_association(REMOTE) as assoc:
            for i in range(k + 1):
                if fails and i == at:
                    raise KeyError('application error')
                if i < k:
                    assoc.get_scu(VERIF_SOP)(i)
                    assoc.receive()
                    done += 1
    except KeyError as e:
        seen = e
    dul = _DulModule.created[0]
    sent = types_sent(dul)
    if fails:
        # left through an error: exactly one A-ABORT, no release, the exception propagates
        ok = seen is not None and sent.count(7) == 1 and sent.count(5) == 0 and sent[-1] == 7 and done == at
    else:
        ok = seen is None and sent.count(5) == 1 and sent.count(7) == 0 and sent[-1] == 5 and done == k
    ok = ok and sent[0] == 1 and dul.killed
    deep(ok and k == 2 and fails and at == 1)
    return ok


# ------------------------------------------------------------------------------------------------
# abort / release by the peer
# ------------------------------------------------------------------------------------------------

@cond(bounds='requestor: after p = 0..2 (thorough: 0..5) DIMSE exchanges (symbolic) the peer sends A-ABORT with (source, reason) each '
             'symbolic 0..255, or A-RELEASE-RQ (symbolic choice): the corresponding error surfaces from receive() with '
             'the fields preserved', timeout=120)
def peer_ends_requestor(p: int, source: int, reason: int, release: bool) -> bool:
    """
    pre: 0 <= p <= KMAX() and 0 <= source <= 255 and 0 <= reason <= 255
    post: _
    """
    p = pick(p, 0, KMAX())
    svc = Svc()
    ae = client_ae(svc)
    ab = pdu.AAbortPDU.decode(bytes([7, 0, 0, 0, 0, 4, 0, 0, source, reason]))
    _patch([ac_reply()] + [(Msg(), 1)] * p + [pdu.AReleaseRqPDU() if release else ab])
    err = None
    got = 0
    try:
        with ae.request_association(REMOTE) as assoc:
            for i in range(KMAX() + 1):
                assoc.receive()
                got += 1
    except exceptions.AssociationAbortedError as e:
        err = ('abort', e.source, e.reason_diag)
    except exceptions.AssociationReleasedError:
        err = ('release',)
    ok = got == p and err == (('release',) if release else ('abort', source, reason))
    if release:
        # the body was left through an error while the association still existed: it is aborted, exactly once
        sent = types_sent(_DulModule.created[0])
        ok = ok and sent.count(7) == 1 and sent.count(5) == 0 and _DulModule.created[0].killed
    deep(ok and p == 1 and not release and source == 2)
    return ok


@cond(bounds='acceptor: after p = 0..2 (thorough: 0..5) served DIMSE messages (symbolic) the peer sends A-RELEASE-RQ, A-ABORT with '
             'symbolic (source, reason), or goes silent (time-out) - symbolic choice: release is answered with exactly '
             'one A-RELEASE-RP, abort and time-out with nothing; services ran exactly p times', timeout=120)
def peer_ends_acceptor(p: int, how: int, source: int, reason: int) -> bool:
    """
    pre: 0 <= p <= KMAX() and 0 <= how <= 2 and 0 <= source <= 255 and 0 <= reason <= 255
    post: _
    """
    p, how = pick(p, 0, KMAX()), pick(how, 0, 2)
    svc = Svc()
    ae = A.StubAE('SCP', supported_ts=[TS], supported_scp={VERIF_SOP: svc})
    rq = pdu.AAssociateRqPDU('SCP', 'SCU', [pdu.ApplicationContextItem(A.APP_CTX),
                                            pdu.PresentationContextItemRQ(1, pdu.AbstractSyntaxSubItem(VERIF_SOP),
                                                                          [pdu.TransferSyntaxSubItem(TS)]),
                                            A.user_info(16384)])
    end = [[pdu.AReleaseRqPDU()], [pdu.AAbortPDU(source, reason)], []][how]
    acc = A.make_acceptor(ae, 16384, [rq] + [(Msg(), 1)] * p + end)
    asceprovider.time = _NoSleep
    acc.handle()
    sent = types_sent(acc.dul)
    ok = sent[0] == 2 and svc.calls == p and acc.dul.killed and not acc.association_established
    if how == 0:
        ok = ok and sent[1:] == [6]
    else:
        ok = ok and sent[1:] == []
    deep(ok and p == 2 and how == 0)
    return ok


# ------------------------------------------------------------------------------------------------
# through the real provider: the peer's abort / release arrives while local traffic is queued
# ------------------------------------------------------------------------------------------------

@cond(bounds='real provider loop (stepped, simulated transport), established association, both roles: the peer\'s A-ABORT '
             'with symbolic (source, reason) - or its A-RELEASE-RQ - becomes readable in the same poll turn in which a '
             'P-DATA request of the local user is queued (symbolic: queued or not): the first thing handed to the user '
             'is that PDU, fields unchanged, and maps to the corresponding library error',
      family={'role': ['acc_sta6', 'req_sta6']}, timeout=180)
def peer_ends_during_local_traffic(source: int, reason: int, release: bool, busy: bool) -> bool:
    """
    pre: 0 <= source <= 255 and 0 <= reason <= 255
    post: _
    """
    from vt.harness import c05
    st, r, ok = c05.start(fam('role'))
    if not ok:
        return False
    st.delta()
    raw = pdu.AReleaseRqPDU().encode() if release else bytes([7, 0, 0, 0, 0, 4, 0, 0, source, reason])
    st.sock.inbox.append(raw)
    if busy:
        st.prov.from_service_user.put(c05.user_prim('u4'))
    st.run()
    sent, ind = st.delta()
    if not ind:
        return False
    first = ind[0]
    err = None
    try:
        asceprovider.Association._handle_errors(first)
    except exceptions.AssociationAbortedError as e:
        err = ('abort', e.source, e.reason_diag)
    except exceptions.AssociationReleasedError:
        err = ('release',)
    ok = err == (('release',) if release else ('abort', source, reason))
    deep(ok and busy and not release and source == 2 and reason == 6)
    return ok
# ------------------------------------------------------------------------------------------------
# requested associations through the public API over the real provider, facing scripted peers (octets)
# ------------------------------------------------------------------------------------------------

VERIF_SOP = '1.2.840.10008.1.1'


def _client_ae():
    from pynetdicom2 import applicationentity, sopclass
    ae = applicationentity.ClientAE('LOCAL', ['1.2.840.10008.1.2'], 16384)
    ae.add_scu(sopclass.verification_scu)
    return ae


def _ac_for(raw_rq):
    from vt.harness import assoc as A
    return pdu.AAssociateAcPDU('REMOTE', 'LOCAL', [
        pdu.ApplicationContextItem(A.APP_CTX),
        pdu.PresentationContextItemAC(1, 0, pdu.TransferSyntaxSubItem('1.2.840.10008.1.2')),
        A.user_info(16384)]).encode()


def _echo_rsp_wire(mid):
    from pynetdicom2 import dimsemessages as dm
    m = dm.CEchoRSPMessage()
    m.message_id_being_responded_to = mid
    m.sop_class_uid = VERIF_SOP
    m.status = 0
    m.set_length()
    return b''.join(p.encode() for p in m.encode(1, 16384))


@cond(bounds='requested association over the REAL provider facing a scripted peer (octets): the peer answers a C-ECHO-RQ '
             'with the C-ECHO-RSP and, in the SAME transport segment, an A-ABORT with symbolic (source, reason) - or an '
             'A-RELEASE-RQ - and closes the connection at once (symbolic) or keeps it open: the user first receives the '
             'response, then the library error with source and reason unchanged', timeout=240)
def abort_behind_response(source: int, reason: int, release: bool, closes: bool) -> bool:
    """
    pre: 0 <= source <= 255 and 0 <= reason <= 255
    post: _
    """
    from vt import sim
    from vt.harness import live as L
    from pynetdicom2 import dimsemessages as dm
    with sim._no_tracing():
        L.install(sim.SimClock(1000))
        ae = _client_ae()
    tail = pdu.AReleaseRqPDU().encode() if release else bytes([7, 0, 0, 0, 0, 4, 0, 0, source, reason])

    def react(new):
        out = []
        for raw in new:
            if raw[0] == 1:
                out.append(_ac_for(raw))
            elif raw[0] == 4:
                out.append(_echo_rsp_wire(7) + tail)
                if closes:
                    out.append(b'')
        return out
    lr = L.LiveRequester(ae, {'aet': 'REMOTE', 'address': 'h', 'port': 104}, react)
    lr.asce.request()
    rq = dm.CEchoRQMessage()
    rq.message_id = 7
    rq.sop_class_uid = VERIF_SOP
    lr.asce.send(rq, 1)
    msg, cid = lr.asce.receive()
    ok = cid == 1 and type(msg) is dm.CEchoRSPMessage
    err = None
    try:
        lr.asce.receive()
    except exceptions.AssociationAbortedError as e:
        err = ('abort', e.source, e.reason_diag)
    except exceptions.AssociationReleasedError:
        err = ('release',)
    except exceptions.NetDICOMError as e:
        err = ('other', type(e).__name__)
    ok = ok and err == (('release',) if release else ('abort', source, reason)) and lr.pump.err is None
    deep(ok and closes and not release and source == 2 and reason == 6)
    return ok


@cond(bounds='requested association over the REAL provider: the peer aborts with symbolic (source, reason) - or asks for '
             'release - WHILE THE USER IS IDLE between two operations (the provider thread has already queued the '
             'indication); the user then looks a service up again (get_scu) and runs it: the operation must end with '
             'the library error carrying the peer\'s source and reason, not with a time-out or a made-up abort',
      timeout=240)
def abort_while_idle(source: int, reason: int, release: bool, first_op: bool) -> bool:
    """
    pre: 0 <= source <= 255 and 0 <= reason <= 255
    post: _
    """
    from vt import sim
    from vt.harness import live as L
    with sim._no_tracing():
        L.install(sim.SimClock(1000))
        ae = _client_ae()

    def react(new):
        out = []
        for raw in new:
            if raw[0] == 1:
                out.append(_ac_for(raw))
            elif raw[0] == 4:
                out.append(_echo_rsp_wire(1))
        return out
    lr = L.LiveRequester(ae, {'aet': 'REMOTE', 'address': 'h', 'port': 104}, react)
    lr.asce.request()
    ok = True
    if first_op:
        st = lr.asce.get_scu(VERIF_SOP)(1)          # a first, successful C-ECHO
        ok = int(st) == 0
    # the peer ends the association while the user is doing something else; the provider thread runs
    lr.sock.inbox.append(pdu.AReleaseRqPDU().encode() if release else bytes([7, 0, 0, 0, 0, 4, 0, 0, source, reason]))
    lr.pump.run()
    err = None
    try:
        lr.asce.get_scu(VERIF_SOP)(1)
    except exceptions.AssociationAbortedError as e:
        err = ('abort', e.source, e.reason_diag)
    except exceptions.AssociationReleasedError:
        err = ('release',)
    except exceptions.NetDICOMError as e:
        err = ('other', type(e).__name__)
    ok = ok and err == (('release',) if release else ('abort', source, reason))
    deep(ok and not release and source == 2 and reason == 5 and first_op)
    return ok


@cond(bounds='public API, nested requested associations (forwarding use) over real providers and scripted peers: inside an '
             'established outer association an inner one is requested and is refused with symbolic (result, source, '
             'reason) - or accepted and then aborted by its peer with symbolic (source, reason) on the first message '
             '(one instance each): the inner error surfaces with its values unchanged, and the OUTER association - left '
             'through that error - is aborted: exactly one A-ABORT and no A-RELEASE-RQ on its connection',
      family={'inner': ['rejected', 'aborted']}, timeout=240)
def nested_association_failure(a: int, b: int, c: int) -> bool:
    """
    pre: 1 <= a <= 2 and 0 <= b <= 255 and 0 <= c <= 255
    post: _
    """
    from vt import sim
    from vt.harness import live as L
    from pynetdicom2 import dimsemessages as dm
    with sim._no_tracing():
        L.install(sim.SimClock(1000))
        ae = _client_ae()
    inner_kind = fam('inner')

    def outer_react(new):
        out = []
        for raw in new:
            if raw[0] == 1:
                out.append(_ac_for(raw))
            elif raw[0] == 5:
                out.append(pdu.AReleaseRpPDU().encode())
            elif raw[0] == 7:
                out.append(b'')
        return out

    def inner_react(new):
        out = []
        for raw in new:
            if raw[0] == 1:
                out.append(bytes([3, 0, 0, 0, 0, 4, 0, a, b, c]) if inner_kind == 'rejected' else _ac_for(raw))
            elif raw[0] == 4:
                out.append(bytes([7, 0, 0, 0, 0, 4, 0, 0, b, c]))
            elif raw[0] == 7:
                out.append(b'')
        return out
    so, si = L.StepSocket(), L.StepSocket()
    L.LiveDulModule.queue = [(so, L.PeerBot(outer_react)), (si, L.PeerBot(inner_react))]
    err = None
    reached_inner_body = False
    try:
        with ae.request_association({'aet': 'REMOTE', 'address': 'a', 'port': 104}) as outer:
            with ae.request_association({'aet': 'OTHER', 'address': 'b', 'port': 104}) as inner:
                reached_inner_body = True
                rq = dm.CEchoRQMessage()
                rq.message_id = 7
                rq.sop_class_uid = VERIF_SOP
                inner.send(rq, 1)
                inner.receive()
    except exceptions.AssociationRejectedError as e:
        err = ('rejected', e.result, e.source, e.diagnostic)
    except exceptions.AssociationAbortedError as e:
        err = ('aborted', e.source, e.reason_diag)
    want = ('rejected', a, b, c) if inner_kind == 'rejected' else ('aborted', b, c)
    ok = err == want and reached_inner_body == (inner_kind == 'aborted')
    kinds_o = [w[0] for w in so.sent]
    ok = ok and kinds_o == [1, 7]                    # outer: its request, then exactly one A-ABORT (no release)
    kinds_i = [w[0] for w in si.sent]
    ok = ok and kinds_i[:1] == [1] and 5 not in kinds_i and so.closed
    deep(ok and b == 3 and c == 7)
    return ok


UNREAD = (1, 2, 31, 32, 33, 34, 48, 200)


@cond(bounds='leaving a requested association with UNREAD indications pending (public API over the REAL provider, scripted peer): '
             'the peer answers one C-ECHO-RQ with n responses at once, n from {1, 2, 31, 32, 33, 34, 48, 200} by symbolic '
             'selector; the application takes the first and leaves the with-block normally or through an error (symbolic): '
             'the peer still receives the A-RELEASE-RQ / exactly one A-ABORT (the provider thread must not be stuck behind '
             'indications nobody reads), the user\'s own error comes out, nothing blocks', timeout=300)
def leave_with_unread_indications(sel: int, raises: bool) -> bool:
    """
    pre: 0 <= sel <= 7
    post: _
    """
    from vt import sim
    from vt.harness import live as L
    from pynetdicom2 import dimsemessages as dm
    n = UNREAD[pick(sel, 0, 7)]
    rz = bool(pick(int(raises), 0, 1))
    with sim._no_tracing():
        L.install(sim.SimClock(1000))
        ae = _client_ae()

        def react(new):
            out = []
            for raw in new:
                if raw[0] == 1:
                    out.append(_ac_for(raw))
                elif raw[0] == 4:
                    out.append(b''.join(_echo_rsp_wire(1) for _ in range(n)))
                elif raw[0] == 5:
                    out.append(pdu.AReleaseRpPDU().encode())
                elif raw[0] == 7:
                    out.append(b'')
            return out
        so = L.StepSocket()
        L.LiveDulModule.queue = [(so, L.PeerBot(react))]
        outcome = None
        try:
            with ae.request_association({'aet': 'REMOTE', 'address': 'a', 'port': 104}) as asce:
                rq = dm.CEchoRQMessage()
                rq.message_id = 1
                rq.sop_class_uid = VERIF_SOP
                asce.send(rq, 1)
                asce.receive()
                if rz:
                    raise ValueError('application error')
            outcome = 'left normally'
        except ValueError:
            outcome = 'application error'
        except api.Hang as h:
            outcome = 'blocked: %s' % (h,)
        except exceptions.NetDICOMError as e:
            outcome = 'library error %s' % type(e).__name__
        prov = L.LiveDulModule.created[-1]
        kinds = [w[0] for w in so.sent]
        ok = outcome == ('application error' if rz else 'left normally') and prov._vt_pump.err is None
        ok = ok and kinds == ([1, 4, 7] if rz else [1, 4, 5])
        leave_with_unread_indications.last = (outcome, kinds, prov._vt_pump.err)
    deep(ok and n == 33 and rz)
    return ok


@cond(bounds='an abort by the LOCAL side as the peer sees it (real provider, the octets on the connection read back by field offsets '
             'of PS3.8 9.3.8): the requesting user aborts an established association with a symbolic reason 0..255 (source 0 = '
             'service user); the accepting application aborts with a symbolic reason (source 2) - one instance each: exactly '
             'one A-ABORT PDU is written, carrying that source and that reason unchanged', family={'role': ['requestor', 'acceptor']},
      timeout=240)
def local_abort_on_the_wire(reason: int) -> bool:
    """
    pre: 0 <= reason <= 255
    post: _
    """
    from vt import sim
    from vt.harness import live as L
    from vt.harness import prov as P
    with sim._no_tracing():
        L.install(sim.SimClock(1000))
    if fam('role') == 'requestor':
        with sim._no_tracing():
            ae = _client_ae()

            def react(new):
                return [_ac_for(raw) for raw in new if raw[0] == 1] + [b'' for raw in new if raw[0] == 7]
            lr = L.LiveRequester(ae, {'aet': 'REMOTE', 'address': 'h', 'port': 104}, react)
            lr.asce.request()
        lr.asce.abort(reason)
        wire, want_source = lr.wire(), 0
    else:
        with sim._no_tracing():
            ae = object.__new__(applicationentity.AE)
            applicationentity.AEBase.__init__(ae, [TS], 16384)
            from pynetdicom2 import sopclass
            ae.add_scp(sopclass.verification_scp)
            la = L.LiveAcceptor(ae, 'A')
            la.deliver(P.get_corpus()['acc_echo_release'][1][0][1])
            la.establish()
        la.acc.abort(reason)
        la.pump.run()
        wire, want_source = la.wire(), 2
    aborts = [w for w in wire if w[0] == 7]
    ok = len(aborts) == 1 and wire[-1] is aborts[0] and len(aborts[0]) == 10 and aborts[0][2:6] == b'\x00\x00\x00\x04'
    ok = ok and aborts[0][8] == want_source and aborts[0][9] == reason
    deep(ok and reason == 6)
    return ok


def explain(cname, args, famv):
    if cname == 'leave_with_unread_indications':
        leave_with_unread_indications(**args)
        return 'n=%d unread responses: outcome=%r, PDU types written to the peer=%r (expected 1, 4 then 5 = release / 7 = abort), provider loop error=%r' % (
            (UNREAD[args['sel']],) + leave_with_unread_indications.last)
    return ''
