"""C15 -- C-STORE delivers the data set intact end-to-end; stored files are never clobbered."""
import warnings
import vt
vt.use_repo()
warnings.simplefilter('ignore')
import pydicom
from vt import api
from vt.api import cond, deep, fam, tier, pick
from vt.refs import part10
from vt.harness.svc import RecAssoc
from pynetdicom2 import sopclass, dimsemessages as dm, statuses, exceptions, asceprovider, dsutils, fsm, pdu
from pynetdicom2 import applicationentity
import pynetdicom2

ASSUMPTIONS = [
    'composition in one symbolic path, without threads or sockets: storage_scu -> Association.send -> encode -> '
    'P-DATA-TF bytes -> PDataTfPDU.decode -> DIMSEDecoder (file-backed reception through the entity\'s get_file) -> '
    'storage_scp -> on_receive_store; the C-STORE-RSP travels back the same way to the Status returned to the sender',
    'real loopback TCP, the two provider threads and the OS scheduling are outside the claim (framing and the provider '
    'loop are C03/C05/C12/C13)',
    'file system and tempfile are in-memory stand-ins (open / os.path.exists / os.path.join / tempfile.TemporaryFile '
    'as seen by pynetdicom2, sopclass and applicationentity)',
    'data set = symbolic bytes (<= 3) followed by a concrete tail of 0 / 30 / 90 bytes; pydicom encodes the concrete '
    'Dataset object of the in-memory variant',
]

CT = '1.2.840.10008.5.1.4.1.1.2'
INSTANCE = '1.2.826.0.1.3680043.9.1'
TS_LIST = ['1.2.840.10008.1.2', '1.2.840.10008.1.2.1', '1.2.840.10008.1.2.2']
TAIL = bytes((7 * i + 3) % 251 for i in range(90))
MS = [16384, 46, 80]
FIRST_ELEMENT = b'\x08\x00\x05\x00\x0a\x00\x00\x00'       # (0008,0005) implicit VR, length 10


# legal statuses an application may answer that the library has no table entry for (PS3.7 Annex C warning 0001H, a Bxxx
# and an Axxx outside the registered ones, the top of the range): the sender must get exactly what the handler returned
STATI_WIDE = [0x0000, 0xB000, 0xA700, 0xC123, 0x0001, 0xB00A, 0xA800, 0xFFFF]
STATI = [0x0000, 0xB000, 0xA700, 0xC123]      # handler outcomes: success, warning, two failures (the sender classifies
                                              # the status through a dict: a symbolic code would only be enumerated)


def PAIRS():
    """(sender maximum, receiver maximum) index pairs: equal, sender smaller, receiver smaller (thorough: all 9)"""
    if tier() == 'thorough':
        return [(a, b) for a in range(3) for b in range(3)]
    return [(0, 0), (1, 2), (2, 1)]


def _dl():
    return 3 if tier() == 'thorough' else 2


# ------------------------------------------------------------------------------------------------
# in-memory file system
# ------------------------------------------------------------------------------------------------

class MemFile(object):
    """file object over a FakeFS entry: content survives close()"""

    def __init__(self, fs, name, mode):
        self.fs, self.name = fs, name
        if 'w' in mode:
            fs.files[name] = b''
            fs.truncated.append(name)
        self.f = pdu.cStringIO(fs.files[name])
        self.closed = False

    def read(self, n=-1):
        return self.f.read(n)

    def write(self, data):
        r = self.f.write(data)
        self.fs.files[self.name] = self.f.getvalue()
        return r

    def writelines(self, lines):
        for ln in lines:
            self.write(ln)

    def seek(self, *a):
        return self.f.seek(*a)

    def tell(self):
        return self.f.tell()

    def getvalue(self):
        return self.f.getvalue()

    def close(self):
        self.closed = True

    def flush(self):
        pass


class FakeFS(object):
    def __init__(self, files=None):
        self.files = dict(files or {})
        self.truncated = []
        self.opened = []

    def open(self, name, mode='r'):
        if 'w' not in mode and name not in self.files:
            raise IOError('no such file %r' % (name,))
        self.opened.append((name, mode))
        return MemFile(self, name, mode)

    # the parts of os / os.path the library uses
    @property
    def path(self):
        return self

    def exists(self, name):
        return name in self.files

    def listdir(self, path):
        pre = path.rstrip('/') + '/'
        return sorted(n[len(pre):] for n in self.files if n.startswith(pre) and '/' not in n[len(pre):])

    @staticmethod
    def join(a, b):
        return a + '/' + b


class _Tempfile(object):
    @staticmethod
    def TemporaryFile(*a, **k):
        return pdu.cStringIO()


applicationentity.tempfile = _Tempfile


def part10_file(data, ts):
    """a DICOM file with the meta header the sender reads (written once, concretely, by pydicom)"""
    meta = pydicom.Dataset()
    meta.MediaStorageSOPClassUID = CT
    meta.MediaStorageSOPInstanceUID = INSTANCE
    meta.TransferSyntaxUID = ts
    meta.ImplementationClassUID = '1.2.3.4'
    import io
    from pydicom.filewriter import write_file_meta_info
    from pydicom import filebase
    buf = io.BytesIO()
    buf.write(b'\0' * 128 + b'DICM')
    write_file_meta_info(filebase.DicomFileLike(buf), meta)
    return buf.getvalue()


HEADERS = [part10_file(b'', t) for t in TS_LIST]


def transfer(pdus, accepted, store_in_file, get_file_cb):
    """P-DATA-TF PDUs -> wire bytes -> decoded PDUs -> reassembled (message, context id) list"""
    out = []
    dec = None
    for p in pdus:
        raw = p.encode()
        q = pdu.PDataTfPDU.decode(raw)
        if dec is None:
            dec = fsm.DIMSEDecoder(accepted, store_in_file, get_file_cb)
        dec.process(q)
        if not dec.receiving:
            out.append((dec.msg, dec.pc_id))
            dec = None
    return out, dec is None


class ProviderAE(object):
    """the receiving entity: real get_file (temporary file) or directory storage; recording handler"""

    def __init__(self, status, fail, storage=None):
        self.status, self.fail = status, fail
        self.received = []
        self.storage = storage
        self.closes = False           # the application closes the file it is handed once it has read it (`with ds:`)

    def on_receive_store(self, ctx, ds):
        pos = ds.tell()
        self.received.append((ctx, ds.read()))
        ds.seek(pos)
        if self.closes:
            ds.close()
        if self.fail:
            raise exceptions.EventHandlingError('cannot store')
        return self.status


class UserAssoc(RecAssoc):
    """sending side: on the first receive() everything sent so far travels to the provider and the response back"""

    def __init__(self, ae, provider_ae, ts, m_user, m_prov, get_file_cb):
        RecAssoc.__init__(self, ae, m_user)
        self.provider_ae, self.ts, self.m_prov, self.get_file_cb = provider_ae, ts, m_prov, get_file_cb
        self.ran = False
        self.whole = True

    def receive(self):
        if not self.ran:
            self.ran = True
            self.dul.drain()
            accepted = {3: asceprovider.PContextDef(3, pydicom.uid.UID(CT), self.ts)}
            msgs, whole = transfer([p for lst in self.dul.pdus for p in lst], accepted, frozenset([CT]),
                                   self.get_file_cb)
            passoc = RecAssoc(self.provider_ae, self.m_prov)
            for m, pc in msgs:
                sopclass.storage_scp(passoc, accepted[pc], m)
            back, whole2 = transfer([p for lst in passoc.dul.pdus for p in lst], {}, frozenset(), None)
            self.whole = whole and whole2 and len(msgs) == 1
            self.script.extend(back)
        return RecAssoc.receive(self)


class SenderAE(object):
    local_ae = {'aet': 'SENDER'}


def check_received(pae, data, ts):
    """the handler saw a readable DICOM file: preamble, DICM, meta naming the negotiated syntax, then exactly `data`"""
    if len(pae.received) != 1:
        return False
    ctx, whole = pae.received[0]
    try:
        meta, off = part10.read_meta(whole)
    except part10.Part10Error:
        return False
    return whole[off:] == data and part10.text(meta[(2, 0x10)]) == str(ts) and part10.text(meta[(2, 2)]) == CT \
        and part10.text(meta[(2, 3)]) == INSTANCE and str(ctx.sop_class) == CT and ctx.id == 3


@cond(bounds='store from a *file*: data set = first element header + 0..3 symbolic bytes + concrete tail of 0 / 30 / 90 bytes (one instance each; 8 + 2 + 30 = 40 bytes is exactly one full fragment at maximum length 46), '
             'maximum PDU length of the sender and of the receiver each from {16384, 46, 80} (symbolic: asymmetric '
             'pairs, multi-fragment transfers), message id symbolic, handler returns success / warning / failure (4 codes, symbolic choice) or raises '
             'EventHandlingError, negotiated transfer syntax by symbolic index over implicit LE / explicit LE / '
             'explicit BE', family=lambda t: [dict(tl=l, tsi=s_) for l in (0, 1, 2)
                                               for s_ in (0, 1, 2)], timeout=300, thorough_timeout=1200)
def store_file_end_to_end(d: bytes, pair: int, mid: int, sti: int, fail: bool) -> bool:
    """
    pre: len(d) <= _dl() and 0 <= pair < len(PAIRS()) and 0 <= mid <= 65535 and 0 <= sti < len(STATI)
    post: _
    """
    st = STATI[pick(sti, 0, len(STATI) - 1)]
    mu, mp = PAIRS()[pick(pair, 0, len(PAIRS()) - 1)]
    tsi = fam('tsi')
    if fam('tl'):
        d = b'\x41\x42'                                  # long data sets: concrete content (cf. C07)
    # a data set starts with an element of a group >= 0008 (the sender looks at the first tag to find the end of the
    # file meta group); the bytes after that first element header are arbitrary
    data = FIRST_ELEMENT + d + TAIL[:(0, 30, 90)[fam('tl')]]
    ts = pydicom.uid.UID(TS_LIST[tsi])
    fs = FakeFS({'/in/x.dcm': HEADERS[tsi] + data})
    sopclass.open = fs.open
    rae = object.__new__(applicationentity.AE)
    applicationentity.AEBase.__init__(rae, TS_LIST, MS[mp])
    pae = ProviderAE(st, fail)
    ua = UserAssoc(SenderAE(), pae, ts, MS[mu], MS[mp], rae.get_file)
    ctx = asceprovider.PContextDef(3, pydicom.uid.UID(CT), ts)
    status = sopclass.storage_scu(ua, ctx, '/in/x.dcm', mid)
    ok = ua.whole and check_received(pae, data, ts)
    ok = ok and int(status) == (0xC000 if fail else st)
    # what went over the wire: the request carried the UIDs of the file and the sender's message id
    sent = ua.sent()
    ok = ok and len(sent) == 1 and sent[0].command_field == 0x0001 and sent[0].message_id == mid \
        and sent[0].sop_class == CT and sent[0].sop_instance == INSTANCE and sent[0].data == data
    deep(ok and pair == 1 and not fail)
    return ok


def part10_header_without_instance(ts):
    """file meta group as some writers produce it: no MediaStorageSOPInstanceUID (0002,0003)"""
    meta = pydicom.Dataset()
    meta.MediaStorageSOPClassUID = CT
    meta.TransferSyntaxUID = ts
    meta.ImplementationClassUID = '1.2.3.4'
    import io
    from pydicom.filewriter import write_file_meta_info
    from pydicom import filebase
    buf = io.BytesIO()
    buf.write(b'\0' * 128 + b'DICM')
    write_file_meta_info(filebase.DicomFileLike(buf), meta, enforce_standard=False)
    return buf.getvalue()


@cond(bounds='store from a Part 10 *file whose file meta group lacks the SOP instance UID* (the sender then reads it from the '
             'data set): a real data set (odd-length values, nested sequence) in implicit LE / explicit LE / explicit BE '
             '(symbolic selector), maximum lengths of both sides symbolic from {16384, 46, 80}, message id from 3 values: '
             'the handler receives exactly the data set octets of the file (not its meta group), tagged with the '
             'instance UID of the data set', timeout=240)
def store_file_meta_without_instance(tsi: int, pair: int, mi: int) -> bool:
    """
    pre: 0 <= tsi <= 2 and 0 <= pair < len(PAIRS()) and 0 <= mi <= 2
    post: _
    """
    from vt import sim
    tsi, pair, mi = pick(tsi, 0, 2), pick(pair, 0, len(PAIRS()) - 1), pick(mi, 0, 2)
    with sim._no_tracing():
        mu, mp = PAIRS()[pair]
        mid = (0, 255, 65535)[mi]
        ts = pydicom.uid.UID(TS_LIST[tsi])
        data = dsutils.encode(sample_dataset(), ts.is_implicit_VR, ts.is_little_endian)
        fs = FakeFS({'/in/y.dcm': part10_header_without_instance(ts) + data})
        sopclass.open = fs.open
        rae = object.__new__(applicationentity.AE)
        applicationentity.AEBase.__init__(rae, TS_LIST, MS[mp])
        pae = ProviderAE(0, False)
        ua = UserAssoc(SenderAE(), pae, ts, MS[mu], MS[mp], rae.get_file)
        ctx = asceprovider.PContextDef(3, pydicom.uid.UID(CT), ts)
        status = sopclass.storage_scu(ua, ctx, '/in/y.dcm', mid)
        ok = ua.whole and check_received(pae, data, ts) and int(status) == 0
        sent = ua.sent()
        ok = ok and len(sent) == 1 and sent[0].message_id == mid and sent[0].sop_instance == INSTANCE \
            and sent[0].data == data
    deep(ok and pair == 1)
    return ok


def sample_dataset():
    ds = pydicom.Dataset()
    ds.SOPClassUID = CT
    ds.SOPInstanceUID = INSTANCE
    ds.PatientName = 'DOE^JANE'
    ds.PatientID = '12345'            # odd length: padded
    ds.Rows = 512
    seq = pydicom.Dataset()
    seq.ReferencedSOPInstanceUID = '1.2.3'
    ds.ReferencedImageSequence = pydicom.Sequence([seq])
    return ds


@cond(bounds='store from *memory* (a Dataset with odd-length values and a nested sequence): negotiated transfer syntax '
             'symbolic over implicit LE / explicit LE / explicit BE, maximum PDU lengths of both sides symbolic from '
             '{16384, 46, 80}, message id symbolic, handler outcome symbolic (4 codes - with the first pair of maxima 8 codes, incl. legal ones the library has no table entry for - or EventHandlingError); the handler '
             'leaves the file it is handed open or closes it itself once it has read it (symbolic)',
      family={'tsi': [0, 1, 2]}, timeout=700)
def store_dataset_end_to_end(pair: int, mid: int, sti: int, fail: bool, closes: bool) -> bool:
    """
    pre: 0 <= pair < len(PAIRS()) and 0 <= mid <= 65535 and 0 <= sti < len(STATI_WIDE) and (sti < len(STATI) or pair == 0)
    post: _
    """
    st = STATI_WIDE[pick(sti, 0, len(STATI_WIDE) - 1)]
    mu, mp = PAIRS()[pick(pair, 0, len(PAIRS()) - 1)]
    tsi = fam('tsi')
    ts = pydicom.uid.UID(TS_LIST[tsi])
    rae = object.__new__(applicationentity.AE)
    applicationentity.AEBase.__init__(rae, TS_LIST, MS[mp])
    pae = ProviderAE(st, fail)
    pae.closes = closes
    ua = UserAssoc(SenderAE(), pae, ts, MS[mu], MS[mp], rae.get_file)
    ctx = asceprovider.PContextDef(3, pydicom.uid.UID(CT), ts)
    status = sopclass.storage_scu(ua, ctx, sample_dataset(), mid)
    want = dsutils.encode(sample_dataset(), ts.is_implicit_VR, ts.is_little_endian)
    ok = ua.whole and check_received(pae, want, ts) and int(status) == (0xC000 if fail else st)
    deep(ok and pair == 1)
    return ok


# ------------------------------------------------------------------------------------------------
# octets in, handler out: the receiving side is the real acceptor over the real provider, next to a second association
# ------------------------------------------------------------------------------------------------

@cond(bounds='receiving side = real AssociationAcceptor over a real stepped provider (octets in): association A negotiates '
             'CT storage on context id 3 with transfer syntax implicit LE / explicit LE (symbolic), a second association '
             'B on the same entity negotiates the same context id with the OTHER syntax before / between / after A\'s '
             'steps (schedule word per instance); A\'s C-STORE (4 data bytes, message id 101) must reach the handler as a '
             'readable file whose meta header names A\'s syntax and whose data set is exactly the bytes sent; B\'s likewise',
      family={'sched': [0b01010101, 0b00110011, 0b00001111, 0b11110000]}, timeout=200)
def store_next_to_other_association(a_tsf: bool, ending: int) -> bool:
    """
    pre: 0 <= ending <= 3
    post: _
    """
    from vt.harness import c20
    ending = pick(ending, 0, 3)
    a_tsf = bool(pick(int(a_tsf), 0, 1))
    pay_a, pay_b = b'\x08\x00\x05\x00', b'\x10\x00'
    pa_ = ('CLIENT_A', 16384, 1 if a_tsf else 0, 100, pay_a, 0)
    pb_ = ('CLIENT_B', 4096, 0 if a_tsf else 1, 200, pay_b, ending)
    ta, tb, log = c20._live_run(pa_, pb_, fam('sched'), 0)
    stores = [e for e in log if e[0] == 'store']
    ok = len(stores) == 2 and ta[5] is None
    ts_a, ts_b = (TS_LIST[1], TS_LIST[0]) if a_tsf else (TS_LIST[0], TS_LIST[1])
    seen = []
    for e in stores:
        whole = e[4]
        try:
            meta, off = part10.read_meta(whole)
        except part10.Part10Error:
            return False
        seen.append((whole[off:], part10.text(meta[(2, 0x10)]), e[3], part10.text(meta[(2, 3)])))
    ok = ok and (pay_a, ts_a, ts_a, '1.2.3.3') in seen and (pay_b, ts_b, ts_b, '1.2.3.3') in seen
    # the sender of A got the status its own handler call returned, on its own association
    deep(ok and ending == 2)
    return ok


# ------------------------------------------------------------------------------------------------
# directory-backed storage
# ------------------------------------------------------------------------------------------------

class CmdSet(object):
    AffectedSOPClassUID = CT
    AffectedSOPInstanceUID = INSTANCE


DIR_SUFFIXES = ['', '_1', '_1_2', '_2', '_3', '_1_2_3']


@cond(bounds='directory-backed storage entity: which of <uid>.dcm, .dcm_1, .dcm_1_2, .dcm_2, .dcm_3, .dcm_1_2_3 already '
             'exist (six symbolic booleans = every subset, incl. gaps left by deleted duplicates; each file with its '
             'own content; an unrelated instance\'s file is always there), 1..3 stores of the same instance UID in a '
             'row (symbolic), each with its own data', timeout=300)
def storage_directory(e0: bool, e1: bool, e2: bool, e3: bool, e4: bool, e5: bool, n: int) -> bool:
    """
    pre: 1 <= n <= 3
    post: _
    """
    n = pick(n, 1, 3)
    es = [bool(pick(int(e), 0, 1)) for e in (e0, e1, e2, e3, e4, e5)]
    from vt import sim
    with sim._no_tracing():               # everything is concrete from here on (the solver chose subset and count)
        ok = _storage_directory(es, n)
    deep(ok and es[0] and es[1] and not es[2] and es[3] and n == 2)
    return ok


def _storage_directory(es, n):
    base = '/store/%s.dcm' % INSTANCE
    names = [base + sfx for sfx in DIR_SUFFIXES]
    before = {'/store/1.2.3.dcm': b'UNRELATED', '/store/%s.dcm.bak' % INSTANCE: b'BACKUP'}
    for i, (nm, e) in enumerate(zip(names, es)):
        if e:
            before[nm] = b'OLD-CONTENT-%d' % i
    fs = FakeFS(before)
    pynetdicom2.os = fs
    pynetdicom2.open = fs.open
    ctx = asceprovider.PContextDef(3, pydicom.uid.UID(CT), pydicom.uid.UID(TS_LIST[0]))
    used = []
    ok = True
    for k in range(n):
        existing = set(fs.files)
        fp, start = pynetdicom2._get_storage_file(ctx, CmdSet, '/store')
        payload = b'DATA-OF-STORE-%d' % k
        fp.write(payload)
        fp.close()
        name = fp.name
        # its own file: a name that did not exist before this store
        ok = ok and name not in existing and name not in used
        used.append(name)
        whole = fs.files.get(name, b'')
        try:
            meta, off = part10.read_meta(whole)
            ok = ok and whole[off:] == payload and part10.text(meta[(2, 3)]) == INSTANCE
        except part10.Part10Error:
            ok = False
    # nothing that was there before has been overwritten or truncated
    for nm, content in before.items():
        ok = ok and fs.files.get(nm) == content
    ok = ok and all(t not in before for t in fs.truncated)
    return ok


def explain(cname, args, famv):
    if cname == 'storage_directory':
        base = '/store/%s.dcm' % INSTANCE
        names = [base + sfx for sfx in DIR_SUFFIXES]
        before = {nm: b'OLD' for nm, e in zip(names, [args['e%d' % i] for i in range(6)]) if e}
        fs = FakeFS(before)
        pynetdicom2.os = fs
        pynetdicom2.open = fs.open
        ctx = asceprovider.PContextDef(3, pydicom.uid.UID(CT), pydicom.uid.UID(TS_LIST[0]))
        out = ['existing before: %r' % sorted(before)]
        for k in range(args['n']):
            fp, start = pynetdicom2._get_storage_file(ctx, CmdSet, '/store')
            fp.close()
            out.append('store %d opened %r' % (k + 1, fp.name))
        out.append('truncated: %r' % (fs.truncated,))
        return '\n'.join(out)
    return ''
