"""C18 -- status codes are classified totally and consistently (statuses.py)."""
import vt
vt.use_repo()
from vt import api
from vt.api import cond, deep, fam
from vt.refs import status_ps37 as ref
from pynetdicom2 import statuses, dimsemessages as dm

ASSUMPTIONS = [
    'the two module-level dicts of statuses.py (as filled by the real register_statuses() at import) are replaced under '
    'the solver by IntervalTable objects built from them by run-length compression and checked equal to the dicts on '
    'every interval boundary +-1 at harness import (and on all 65536 x 24 keys by vt.selftest); replays use the dicts',
    'general (non service-specific) codes: only "0 is Success, everything else is not Success/Pending/Cancel, and is '
    'Failure unless PS3.7 Annex C lists it as a general warning" is demanded',
]

COMMANDS = [None] + sorted(dm.MESSAGE_TYPE)          # None + the 23 command-field codes


class IntervalTable(object):
    """dict stand-in: .get(key, default) by interval scan; key = code or (command_field, code)."""

    def __init__(self, real, keyed):
        self.keyed = keyed
        self.rows = {}
        groups = {}
        for k, v in real.items():
            cf, code = k if keyed else (None, k)
            groups.setdefault(cf, []).append((code, v))
        for cf, lst in groups.items():
            lst.sort(key=lambda t: t[0])
            rows = []
            for code, v in lst:
                if rows and rows[-1][1] + 1 == code and rows[-1][2] == v:
                    rows[-1][1] = code
                else:
                    rows.append([code, code, v])
            self.rows[cf] = [tuple(r) for r in rows]

    def get(self, key, default=None):
        cf, code = key if self.keyed else (None, key)
        for lo, hi, v in self.rows.get(cf, ()):
            if lo <= code <= hi:
                return v
        return default

    def boundaries_agree(self, real):
        for cf, rows in self.rows.items():
            for lo, hi, v in rows:
                for code in (lo - 1, lo, hi, hi + 1, (lo + hi) // 2):
                    k = (cf, code) if self.keyed else code
                    if self.get(k, '??') != real.get(k, '??'):
                        return False
        return True


def _install():
    if api.REPLAY:
        return
    real_s, real_g = statuses._status_dict, statuses._general_status_dict
    if isinstance(real_s, IntervalTable):
        return
    ts, tg = IntervalTable(real_s, True), IntervalTable(real_g, False)
    assert ts.boundaries_agree(real_s) and tg.boundaries_agree(real_g)
    statuses._status_dict, statuses._general_status_dict = ts, tg


_install()
_STATE = api.ModuleState(statuses, skip=('KNOWN_STATUSES',))


@cond(bounds='every status code 0..65535 (symbolic) for one message class per instance: all 23 message classes and '
             'no class', family={'cmd': COMMANDS}, timeout=60)
def status_classified(v: int) -> bool:
    """
    pre: 0 <= v <= 65535
    post: _
    """
    _STATE.restore()
    cf = fam('cmd')
    cmd = dm.MESSAGE_TYPE[cf] if cf is not None else None
    st = statuses.Status(v, cmd)
    flags = [st.is_success, st.is_pending, st.is_warning, st.is_cancel, st.is_failure]
    names = ['Success', 'Pending', 'Warning', 'Cancel', 'Failure']
    n_true = 0
    cls = None
    for f, nm in zip(flags, names):
        if f:
            n_true += 1
            cls = nm
    ok = n_true == 1 and cls == st.status_type
    ok = ok and cls in ref.allowed_classes(cf, v)
    ok = ok and st.__int__() == v if not api.REPLAY else ok and int(st) == v
    deep(ok and v == 0xC123)
    return ok


HIST = [None, 0x8030, 0x8001, 0x8020, 0x8010, 0x8021, 0x8120]


def classify(v, cf):
    cmd = dm.MESSAGE_TYPE[cf] if cf is not None else None
    st = statuses.Status(v, cmd)
    names = ['Success', 'Pending', 'Warning', 'Cancel', 'Failure']
    flags = [st.is_success, st.is_pending, st.is_warning, st.is_cancel, st.is_failure]
    got = [nm for f, nm in zip(flags, names) if f]
    return got, st.status_type


@cond(bounds='classification does not depend on history: a status for message class X (any code) is created first, '
             'then one for class Y with the same code, then X again - every ordered pair X != Y over {none, C-ECHO-RSP, '
             'C-STORE-RSP, C-FIND-RSP, C-GET-RSP, C-MOVE-RSP, N-SET-RSP}; the code symbolic over 0..65535',
      family=[dict(first=a, second=b) for a in range(7) for b in range(7) if a != b], timeout=60)
def status_history(v: int) -> bool:
    """
    pre: 0 <= v <= 65535
    post: _
    """
    _STATE.restore()
    cf1, cf2 = HIST[fam('first')], HIST[fam('second')]
    classify(v, cf1)
    got, typ = classify(v, cf2)
    ok = len(got) == 1 and got[0] == typ and typ in ref.allowed_classes(cf2, v)
    got, typ = classify(v, cf1)
    ok = ok and len(got) == 1 and got[0] == typ and typ in ref.allowed_classes(cf1, v)
    deep(ok and v == 0xFE00)
    return ok


def explain(cname, args, famv):
    if cname == 'status_history':
        cf1, cf2 = HIST[famv['first']], HIST[famv['second']]
        classify(args['v'], cf1)
        got, typ = classify(args['v'], cf2)
        return 'after Status(0x%04X, %r): Status(0x%04X, %r) -> %r; PS3.7/PS3.4 allow %r' % (
            args['v'], cf1, args['v'], cf2, typ, ref.allowed_classes(cf2, args['v']))
    cf = famv.get('cmd')
    cmd = dm.MESSAGE_TYPE[cf] if cf is not None else None
    st = statuses.Status(args['v'], cmd)
    return 'Status(0x%04X, %s) -> type %r; PS3.7/PS3.4 allow %r' % (
        args['v'], cmd.__name__ if cmd else None, st.status_type, ref.allowed_classes(cf, args['v']))
