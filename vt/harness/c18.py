"""C18 -- status codes are classified totally and consistently (statuses.py)."""
import vt
vt.use_repo()
from vt import api
from vt.api import cond, deep, fam
from vt.refs import status_ps37 as ref
from pynetdicom2 import statuses, dimsemessages as dm

ASSUMPTIONS = [
    'the big module-level look-up tables of statuses.py (as filled by the real register_statuses() at import; found by '
    'size, whatever their organisation: flat by code, keyed by (command, code), nested per command) are replaced under '
    'the solver by read-only IntervalTable objects built from them by run-length compression and checked equal to the '
    'dicts on every interval boundary +-1 at harness import (and on all 65536 x 24 keys by vt.selftest); replays use '
    'the dicts; registrations made by a condition run concretely on copies of the real dicts, which are then wrapped',
    'general (non service-specific) codes: only "0 is Success, everything else is not Success/Pending/Cancel, and is '
    'Failure unless PS3.7 Annex C lists it as a general warning" is demanded',
]

COMMANDS = [None] + sorted(dm.MESSAGE_TYPE)          # None + the 23 command-field codes


class Unwrappable(Exception):
    pass


class IntervalTable(object):
    """Read-only stand-in for a look-up table of statuses.py whose keys are status codes, (x, code) pairs, or other
    small keys whose values are again such tables: .get / [] / in by interval scan over run-length compressed rows.
    Independent of how the module organises its tables (flat, keyed by pair, nested per command)."""

    def __init__(self, real):
        keys = list(real)
        if keys and all(type(k) is tuple and len(k) == 2 and type(k[1]) is int for k in keys):
            self.mode = 'pair'
        elif all(type(k) is int for k in keys) and not any(isinstance(v, dict) for v in real.values()):
            self.mode = 'code'
        elif all(isinstance(v, dict) for v in real.values()):
            self.mode = 'nested'
        else:
            raise Unwrappable(repr(keys[:3]))
        self.rows = {}
        if self.mode == 'nested':
            self.sub = dict((k, IntervalTable(v) if len(v) > 64 else v) for k, v in real.items())
            return
        groups = {}
        for k, v in real.items():
            cf, code = k if self.mode == 'pair' else (None, k)
            groups.setdefault(cf, []).append((code, v))
        for cf, lst in groups.items():
            lst.sort(key=lambda t: t[0])
            rows = []
            for code, v in lst:
                if rows and rows[-1][1] + 1 == code and rows[-1][2] == v:
                    rows[-1][1] = code
                else:
                    rows.append([code, code, v])
            self.rows[cf] = [tuple(r) for r in rows]

    _MISSING = object()

    def get(self, key, default=None):
        if self.mode == 'nested':
            return self.sub.get(key, default)
        cf, code = key if self.mode == 'pair' else (None, key)
        for lo, hi, v in self.rows.get(cf, ()):
            if lo <= code <= hi:
                return v
        return default

    def __getitem__(self, key):
        v = self.get(key, self._MISSING)
        if v is self._MISSING:
            raise KeyError(key)
        return v

    def __contains__(self, key):
        return self.get(key, self._MISSING) is not self._MISSING

    def __bool__(self):
        return True

    def boundaries_agree(self, real):
        if self.mode == 'nested':
            return all((v.boundaries_agree(real[k]) if isinstance(v, IntervalTable) else v == real[k])
                       for k, v in self.sub.items())
        for cf, rows in self.rows.items():
            for lo, hi, v in rows:
                for code in (lo - 1, lo, hi, hi + 1, (lo + hi) // 2):
                    k = (cf, code) if self.mode == 'pair' else code
                    if self.get(k, '??') != real.get(k, '??'):
                        return False
        return True


class IntervalSeq(object):
    """Read-only stand-in for a look-up table organised as a big LIST indexed by the status code: run-length rows, indexing
    by interval scan, IndexError beyond the real length (the length is part of the behaviour), negative indices as Python."""

    def __init__(self, real):
        self.n = len(real)
        rows = []
        for i, v in enumerate(real):
            if rows and rows[-1][2] is v:
                rows[-1][1] = i
            else:
                rows.append([i, i, v])
        self.rows = [tuple(r) for r in rows]

    def __len__(self):
        return self.n

    def __getitem__(self, i):
        if i < 0:
            i = i + self.n
        if not (0 <= i < self.n):
            raise IndexError('list index out of range')
        for lo, hi, v in self.rows:
            if lo <= i <= hi:
                return v
        raise IndexError('list index out of range')

    def get(self, i, default=None):
        raise AttributeError("'list' object has no attribute 'get'")

    def __bool__(self):
        return self.n > 0

    def boundaries_agree(self, real):
        if len(real) != self.n:
            return False
        for lo, hi, v in self.rows:
            for i in (lo - 1, lo, hi, hi + 1, (lo + hi) // 2):
                if 0 <= i < self.n and self[i] is not real[i]:
                    return False
        return True


def _big_list(x):
    return type(x) is list and len(x) > 256


REAL = {}           # name -> the module's own table (a real dict), as import left it
WRAPPED = {}        # name -> its stand-in
UNWRAPPED = []      # big tables whose organisation the stand-in does not understand (left as they are: the solver
                    # then enumerates codes and the conditions end inconclusive rather than wrong)


def _install():
    if api.REPLAY or REAL:
        return
    for name, v in list(vars(statuses).items()):
        if name.startswith('__'):
            continue
        if _big_list(v):
            t = IntervalSeq(v)
            if not t.boundaries_agree(v):
                UNWRAPPED.append(name)
                continue
            REAL[name] = v
            WRAPPED[name] = t
            setattr(statuses, name, t)
        elif type(v) is dict and v and all(_big_list(x) for x in v.values()):
            # one big list per command field
            t = dict((k, IntervalSeq(x)) for k, x in v.items())
            if not all(t[k].boundaries_agree(x) for k, x in v.items()):
                UNWRAPPED.append(name)
                continue
            REAL[name] = v
            WRAPPED[name] = t
            setattr(statuses, name, t)
        elif type(v) is dict and (len(v) > 256 or any(
                isinstance(x, dict) and len(x) > 256 for x in v.values())):
            try:
                t = IntervalTable(v)
                assert t.boundaries_agree(v)
            except (Unwrappable, AssertionError):
                UNWRAPPED.append(name)
                continue
            REAL[name] = v
            WRAPPED[name] = t
            setattr(statuses, name, t)


_install()
_STATE = api.ModuleState(statuses, skip=('KNOWN_STATUSES',))


@cond(bounds='every status code 0..65535 (symbolic) for one message class per instance: all 23 message classes and '
             'no class', family={'cmd': COMMANDS}, timeout=60)
def status_classified(v: int) -> bool:
    """
    pre: 0 <= v <= 65535
    post: _
    """
    _STATE.restore()
    cf = fam('cmd')
    cmd = dm.MESSAGE_TYPE[cf] if cf is not None else None
    st = statuses.Status(v, cmd)
    flags = [st.is_success, st.is_pending, st.is_warning, st.is_cancel, st.is_failure]
    names = ['Success', 'Pending', 'Warning', 'Cancel', 'Failure']
    n_true = 0
    cls = None
    for f, nm in zip(flags, names):
        if f:
            n_true += 1
            cls = nm
    ok = n_true == 1 and cls == st.status_type
    ok = ok and cls in ref.allowed_classes(cf, v)
    ok = ok and st.__int__() == v if not api.REPLAY else ok and int(st) == v
    deep(ok and v == 0xC123)
    return ok


HIST = [None, 0x8030, 0x8001, 0x8020, 0x8010, 0x8021, 0x8120]


def classify(v, cf):
    cmd = dm.MESSAGE_TYPE[cf] if cf is not None else None
    st = statuses.Status(v, cmd)
    names = ['Success', 'Pending', 'Warning', 'Cancel', 'Failure']
    flags = [st.is_success, st.is_pending, st.is_warning, st.is_cancel, st.is_failure]
    got = [nm for f, nm in zip(flags, names) if f]
    return got, st.status_type


@cond(bounds='classification does not depend on history: a status for message class X (any code) is created first, '
             'then one for class Y with the same code, then X again - every ordered pair X != Y over {none, C-ECHO-RSP, '
             'C-STORE-RSP, C-FIND-RSP, C-GET-RSP, C-MOVE-RSP, N-SET-RSP}; the code symbolic over 0..65535',
      family=[dict(first=a, second=b) for a in range(7) for b in range(7) if a != b], timeout=60)
def status_history(v: int) -> bool:
    """
    pre: 0 <= v <= 65535
    post: _
    """
    _STATE.restore()
    cf1, cf2 = HIST[fam('first')], HIST[fam('second')]
    classify(v, cf1)
    got, typ = classify(v, cf2)
    ok = len(got) == 1 and got[0] == typ and typ in ref.allowed_classes(cf2, v)
    got, typ = classify(v, cf1)
    ok = ok and len(got) == 1 and got[0] == typ and typ in ref.allowed_classes(cf1, v)
    deep(ok and v == 0xFE00)
    return ok


LATER = [
    # (code, end, type, command field or None) registered by an application after import
    (0xFF00, None, 'Failure', None),          # a general meaning for a code that is Pending for C-FIND / C-GET / C-MOVE
    (0xB000, 0xB0FF, 'Failure', None),        # a general range over service-specific warnings
    (0xA700, 0xA7FF, 'Warning', None),        # a general range over service-specific failures
    (0x0000, None, 'Success', None),          # re-registering success
    (0xD000, 0xD0FF, 'Warning', 0x8001),      # a private C-STORE warning range
    (0xFE00, None, 'Cancel', None),
]


@cond(bounds='registration after import: an application registers one more status (6 cases: general meanings for codes '
             'that have a service-specific class, a re-registration, a private service-specific range) through the '
             'real add_status; afterwards every code 0..65535 (symbolic) for the message class of the instance must '
             'still be classified as exactly one class, with the standard\'s service-specific class in preference to '
             'any general one (a general registration never overrides C-STORE / C-FIND / C-GET / C-MOVE codes)',
      family=[dict(later=i, cmd=c) for i in range(len(LATER)) for c in (None, 0x8001, 0x8020, 0x8010, 0x8021, 0x8030)],
      timeout=90)
def registered_later(v: int) -> bool:
    """
    pre: 0 <= v <= 65535
    post: _
    """
    _STATE.restore()
    code, end, typ, ccf = LATER[fam('later')]
    from vt import sim
    with sim._no_tracing():
        if not api.REPLAY:
            # the registration itself runs concretely on the module's own tables (copies of what import left)
            for name, real in REAL.items():
                setattr(statuses, name, list(real) if type(real) is list else
                        dict((k, dict(x) if isinstance(x, dict) else (list(x) if type(x) is list else x))
                             for k, x in real.items()))
        snap = None if not api.REPLAY else _replay_snapshot()
        statuses.add_status(code, typ, 'registered later', end, dm.MESSAGE_TYPE[ccf] if ccf else None)
        if not api.REPLAY:
            for name in REAL:
                cur = getattr(statuses, name)
                if _big_list(cur):
                    setattr(statuses, name, IntervalSeq(cur))
                elif type(cur) is dict and cur and all(_big_list(x) for x in cur.values()):
                    setattr(statuses, name, dict((k, IntervalSeq(x)) for k, x in cur.items()))
                else:
                    setattr(statuses, name, IntervalTable(cur))
    try:
        cf = fam('cmd')
        got, styp = classify(v, cf)
        ok = len(got) == 1 and got[0] == styp
        hi = code if end is None else end
        service = ref.allowed_classes(cf, v) if any(lo <= v <= h for lo, h, _ in ref.SERVICE.get(cf, ())) else None
        if v == 0 and not (code == 0):
            ok = ok and styp == 'Success'
        elif service is not None:
            ok = ok and styp in service                  # service-specific class wins, whatever was registered
        elif code <= v <= hi and (ccf is None or ccf == cf):
            ok = ok and styp == typ                      # what the application registered
        else:
            ok = ok and styp in ref.allowed_classes(cf, v)
        deep(ok and code <= v <= hi)
        return ok
    finally:
        with sim._no_tracing():
            if api.REPLAY:
                _replay_restore(snap)
            else:
                for name, t in WRAPPED.items():
                    setattr(statuses, name, t)


@cond(bounds='the statuses the service users hand to their callers: C-MOVE user, C-FIND user, C-GET user (one instance each) '
             'against scripted responses: k = 0..2 pending responses, then a response whose status is a symbolic 16-bit '
             'code, then a stray response: every yielded status is classified as PS3.4 classifies that code FOR THAT '
             'SERVICE, and the iteration ends with the first response whose status is not pending for that service',
      family={'svc': ['move', 'find', 'get']}, timeout=240)
def user_side_classification(k: int, v: int) -> bool:
    """
    pre: 0 <= k <= 2 and 0 <= v <= 65535
    post: _
    """
    import pydicom
    from vt.api import pick
    from vt.harness.svc import RecAssoc
    from pynetdicom2 import sopclass, asceprovider
    _STATE.restore()
    k = pick(k, 0, 2)
    svc = fam('svc')
    cls, cf, sop = {'move': (dm.CMoveRSPMessage, 0x8021, sopclass.PATIENT_ROOT_MOVE_SOP_CLASS),
                    'find': (dm.CFindRSPMessage, 0x8020, sopclass.PATIENT_ROOT_FIND_SOP_CLASS),
                    'get': (dm.CGetRSPMessage, 0x8010, sopclass.PATIENT_ROOT_GET_SOP_CLASS)}[svc]

    def rsp(status):
        m = cls()
        m.message_id_being_responded_to = 5
        m.sop_class_uid = sop
        m.status = status
        return (m, 1)
    script = [rsp(0xFF00) for _ in range(k)] + [rsp(v), rsp(0x0000), rsp(0x0000)]

    class StubAE(object):
        store_in_file = set()
        context_def_list = {}
        local_ae = {'aet': 'ME'}
    asce = RecAssoc(StubAE(), script=script)
    ctx = asceprovider.PContextDef(1, pydicom.uid.UID(str(sop)), pydicom.uid.ImplicitVRLittleEndian)
    q = pydicom.Dataset()
    q.QueryRetrieveLevel = 'STUDY'
    if svc == 'move':
        it = sopclass.qr_move_scu(asce, ctx, q, 'DEST', 5)
    elif svc == 'find':
        it = sopclass.qr_find_scu(asce, ctx, q, 5)
    else:
        it = sopclass.qr_get_scu(asce, ctx, q, 5)
    got = []
    n = 0
    for item in it:
        st = item[0] if svc == 'move' else item[1]
        if hasattr(st, 'status_type'):
            got.append(st)
        n += 1
        if n > 6:
            break
    v_pending = 'Pending' in ref.allowed_classes(cf, v)
    # responses consumed: the k pending ones, the one with status v, and - only if v is pending for this service - one more
    want_read = k + 1 + (1 if v_pending else 0)
    ok = asce.received == want_read
    codes = [0xFF00] * k + [v] + ([0] if v_pending else [])
    if svc != 'get':
        ok = ok and len(got) == len(codes)
        for st, code in zip(got, codes):
            ok = ok and st.status_type in ref.allowed_classes(cf, code) and (st.__int__() == code if not api.REPLAY else int(st) == code)
    deep(ok and v == 0xB000)
    return ok


def _replay_snapshot():
    return dict((name, (v, dict((k, dict(x) if isinstance(x, dict) else x) for k, x in v.items())))
                for name, v in vars(statuses).items() if type(v) is dict and not name.startswith('__'))


def _replay_restore(snap):
    for name, (obj, copy) in snap.items():
        obj.clear()
        obj.update(copy)


def explain(cname, args, famv):
    if cname == 'registered_later':
        code, end, typ, ccf = LATER[famv['later']]
        snap = _replay_snapshot()
        statuses.add_status(code, typ, 'registered later', end, dm.MESSAGE_TYPE[ccf] if ccf else None)
        got, styp = classify(args['v'], famv['cmd'])
        _replay_restore(snap)
        return 'after add_status(0x%04X..%s, %r, command=%r): Status(0x%04X, %r) -> %r %r; service-specific class by ' \
               'PS3.4: %r' % (code, end, typ, ccf, args['v'], famv['cmd'], got, styp,
                              ref.allowed_classes(famv['cmd'], args['v']))
    if cname == 'status_history':
        cf1, cf2 = HIST[famv['first']], HIST[famv['second']]
        classify(args['v'], cf1)
        got, typ = classify(args['v'], cf2)
        return 'after Status(0x%04X, %r): Status(0x%04X, %r) -> %r; PS3.7/PS3.4 allow %r' % (
            args['v'], cf1, args['v'], cf2, typ, ref.allowed_classes(cf2, args['v']))
    cf = famv.get('cmd')
    cmd = dm.MESSAGE_TYPE[cf] if cf is not None else None
    st = statuses.Status(args['v'], cmd)
    return 'Status(0x%04X, %s) -> type %r; PS3.7/PS3.4 allow %r' % (
        args['v'], cmd.__name__ if cmd else None, st.status_type, ref.allowed_classes(cf, args['v']))
