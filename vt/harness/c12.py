"""C12 -- no byte sequence from the peer can crash or hang the provider."""
import warnings
import vt
vt.use_repo()
warnings.simplefilter('ignore')
from vt import api
from vt.api import cond, deep, fam, tier, pick
from vt.refs import ps38
from vt.harness import prov
from vt.harness.c13 import user_informed
from pynetdicom2 import pdu

ASSUMPTIONS = [
    'the real provider loop runs over the simulated transport; the provider is brought into each waiting state by a '
    'concrete conformant prefix, then receives the hostile bytes, then the peer closes the connection',
    'an A-ABORT is *demanded* only where no decoder could do otherwise: unknown PDU type byte, PDU body shorter than '
    'the fixed part of its type; everywhere else either an orderly abort or lenient processing is accepted',
    'everything the provider writes must parse with the independent reference parser vt/refs/ps38.py',
]

C = prov.get_corpus()
RQ = C['acc_echo_release'][1][0][1]
AC = C['req_echo_release'][1][1][1]
RQ_PDU = C['req_echo_release'][1][0][1]
AC_PDU = C['acc_echo_release'][1][1][1]
ECHO = C['acc_echo_release'][1][2][1]
P_STORE_FIRST = prov._store_rq(48)[0].encode()
VALID = {1: RQ, 2: AC, 3: pdu.AAssociateRjPDU(1, 1, 3).encode(), 4: ECHO, 5: pdu.AReleaseRqPDU().encode(),
         6: pdu.AReleaseRpPDU().encode(), 7: pdu.AAbortPDU(0, 0).encode()}

# state -> (acceptor?, prefix turns, gate for the hostile bytes, PDUs written by the prefix, association indicated?)
STATES = {
    2: (True, [], 0, 0, False),
    3: (True, [('peer', RQ, 0)], 0, 0, True),
    5: (False, [('user', RQ_PDU, 0)], 1, 1, True),
    6: (True, [('peer', RQ, 0), ('user', AC_PDU, 1)], 1, 1, True),
    7: (True, [('peer', RQ, 0), ('user', AC_PDU, 1), ('user', pdu.AReleaseRqPDU(), 1)], 2, 2, True),
    13: (True, [('peer', RQ, 0), ('user', pdu.AAssociateRjPDU(1, 1, 1), 1)], 1, 1, False),
    # established with a DIMSE message half received (first fragment of a multi-fragment C-STORE-RQ)
    60: (True, [('peer', RQ, 0), ('user', AC_PDU, 1), ('peer', P_STORE_FIRST, 1)], 1, 1, True),
}
_RELRQ, _RELRP = pdu.AReleaseRqPDU().encode(), pdu.AReleaseRpPDU().encode()
# release states: peer asked for release (8), release collision on the acceptor (10, 12) and requestor side (9, 11)
STATES[8] = (True, STATES[6][1] + [('peer', _RELRQ, 1)], 1, 1, True)
STATES[10] = (True, STATES[7][1] + [('peer', _RELRQ, 2)], 2, 2, True)
STATES[12] = (True, STATES[10][1] + [('peer', _RELRP, 2)], 2, 2, True)
STATES[9] = (False, [('user', RQ_PDU, 0), ('peer', AC, 1), ('user', pdu.AReleaseRqPDU(), 1), ('peer', _RELRQ, 2)], 2, 2, True)
STATES[11] = (False, STATES[9][1] + [('user', pdu.AReleaseRpPDU(), 2)], 3, 3, True)
NATURAL = {1: 2, 2: 5, 3: 5, 4: 6, 5: 6, 6: 7, 7: 6}


def run_hostile(state, hostile, how='close'):
    """how='reset': the peer resets the connection right behind the hostile bytes - they can still be read, whatever the
    provider then tries to write (its A-ABORT) fails"""
    acc, prefix, gate, nsent, indicated = STATES[state]
    turns = list(prefix) + [('peer', hostile, gate), (how, None, gate)]
    conv = prov.Conversation(turns, acceptor=acc, budget=80)
    conv.tick = 1
    tr = conv.run()
    return conv, tr


def written_after_prefix(state, tr):
    """reference-parsed PDUs the provider wrote after the conformant prefix; None if unparsable"""
    try:
        pdus = ps38.parse_stream(tr.sent)
    except ps38.RefError:
        return None
    return pdus[STATES[state][3]:]


def robust(state, conv, tr):
    """never crashes, never hangs, ends idle with the connection closed, the user is told, output well-formed"""
    ok = tr.err is None and not tr.over_budget and tr.state == 0 and tr.closed and tr.socket_released
    ok = ok and not tr.timer_running and user_informed(tr, conv)
    return ok and written_after_prefix(state, tr) is not None


def aborted(state, conv, tr):
    """answered with exactly one A-ABORT (nothing else written), provider-abort indicated where an association was"""
    out = written_after_prefix(state, tr)
    if out is None or len(out) != 1 or out[0]['type'] != 7:
        return False
    inds = [i[1] for i in tr.indications if i[0] == 'pdu']
    if state in (3, 5, 6, 7, 60, 8, 9, 10, 11, 12):
        return len(inds) >= 1 and inds[-1] == 7
    return 7 not in inds


@cond(bounds='every waiting state (2, 3, 5, 6, 7, 13, 6 with a half-received DIMSE message, and the release / release-collision states 8, 9, 10, 11, 12; one instance each): a PDU whose type byte is symbolic over all '
             'unrecognised values (0, 8..255), with a symbolic reserved byte and a body of 0..6 bytes (symbolic length); the peer then closes - or '
             'has RESET the connection right behind that PDU (symbolic), so that the A-ABORT cannot be written: the user is still told, exactly once',
      family={'state': [2, 3, 5, 6, 7, 13, 60, 8, 9, 10, 11, 12]}, timeout=180)
def unknown_type(t: int, r: int, n: int, reset: bool) -> bool:
    """
    pre: (t == 0 or 8 <= t <= 255) and 0 <= r <= 255 and 0 <= n <= 6
    post: _
    """
    n = pick(n, 0, 6)
    state = fam('state')
    hostile = bytes([t, r]) + n.to_bytes(4, 'big') + b'\x00' * n
    if reset:
        # the peer has reset the connection behind the offending PDU: the A-ABORT cannot be delivered any more, everything
        # else must still happen - the loop survives, ends idle and closed, and the user is told the association is gone
        conv, tr = run_hostile(state, hostile, 'reset')
        ok = robust(state, conv, tr)
        inds = [i[1] for i in tr.indications if i[0] == 'pdu']
        if state in (3, 5, 6, 7, 60, 8, 9, 10, 11, 12):
            ok = ok and len(inds) >= 1 and inds[-1] == 7 and inds.count(7) == 1
        deep(ok and t == 0xFE and n == 2)
        return ok
    conv, tr = run_hostile(state, hostile)
    ok = robust(state, conv, tr) and aborted(state, conv, tr)
    deep(ok and t == 0xFF and n == 3)
    return ok


def must_abort_len(kind, L):
    """body cut to fewer bytes than the fixed part of the PDU type"""
    if kind in (3, 5, 6, 7):
        return L < 4
    if kind in (1, 2):
        return L < 68
    return 1 <= L < 5


@cond(bounds='each valid PDU kind in its natural state (7 instances; thorough tier also in state 6): the 4-byte PDU length field is '
             'replaced by a symbolic value 0 <= L < 2^32 (too short: the rest is read as further PDUs; too long: the '
             'provider waits and the peer then closes)',
      family=lambda t: [dict(kind=k, state=s) for k in range(1, 8)
                        for s in sorted(set([NATURAL[k]] + ([6] if t == 'thorough' else [])))], timeout=240)
def length_field(L: int) -> bool:
    """
    pre: 0 <= L <= 0xFFFFFFFF
    post: _
    """
    kind, state = fam('kind'), fam('state')
    base = VALID[kind]
    hostile = base[:2] + L.to_bytes(4, 'big') + base[6:]
    conv, tr = run_hostile(state, hostile)
    ok = robust(state, conv, tr)
    if state == NATURAL[kind] and must_abort_len(kind, L) and L + 6 <= len(base):
        out = written_after_prefix(state, tr)
        ok = ok and out is not None and len(out) >= 1 and out[0]['type'] == 7
    deep(ok and L == 3)
    return ok


def structural_offsets(kind):
    base = VALID[kind]
    if kind in (1, 2):
        # type, reserved, length bytes, protocol version, first AE-title bytes, then every item / sub-item header
        offs = [0, 1, 2, 5, 6, 7, 10, 25, 41, 73]
        pos = 74
        while pos + 4 <= len(base) and len(offs) < 40:
            offs += [pos, pos + 2, pos + 3]
            t = base[pos]
            ln = int.from_bytes(base[pos + 2:pos + 4], 'big')
            if t in (0x20, 0x21, 0x50):
                if t != 0x50:
                    offs.append(pos + 4)
                    pos += 8
                else:
                    pos += 4
            else:
                if ln:
                    offs.append(pos + 4)
                pos += 4 + ln
        offs = sorted(set(o for o in offs if o < len(base)))
        if tier() != 'thorough':
            offs = offs[:2] + offs[10:14:2] + offs[-1:]        # quick tier: 5 of them
        return offs
    if kind == 4:
        if tier() != 'thorough':
            return [0, 9, 11, 12]
        return [0, 1, 2, 5, 6, 8, 9, 10, 11, 12, 14, 15, 19, 20, 22, 23, 27, 28, len(base) - 1]
    return list(range(10))


@cond(bounds='each valid PDU kind in its natural state: one byte at a structural offset (type, length fields, item and '
             'sub-item type / length bytes, PDV length, context id, control header, element tags and lengths of the '
             'command set; one instance per offset) takes a symbolic value 0..255',
      family=lambda t: [dict(kind=k, i=i) for k in range(1, 8) for i in range(len(structural_offsets(k)))],
      timeout=300, thorough_timeout=900)
def byte_set(val: int) -> bool:
    """
    pre: 0 <= val <= 255
    post: _
    """
    kind = fam('kind')
    i = fam('i')
    state = NATURAL[kind]
    offs = structural_offsets(kind)
    off = offs[i]
    base = VALID[kind]
    hostile = base[:off] + bytes([val]) + base[off + 1:]
    conv, tr = run_hostile(state, hostile)
    ok = robust(state, conv, tr)
    if off == 0 and (val == 0 or val >= 8):
        ok = ok and aborted(state, conv, tr)
    deep(ok and val == 0x80)
    return ok


@cond(bounds='each valid PDU kind in its natural state, truncated after k body bytes with the length field fixed up '
             '(k symbolic over 0..min(len, 80))', family={'kind': [1, 2, 3, 4, 5, 6, 7]}, timeout=300)
def truncated(k: int) -> bool:
    """
    pre: 0 <= k <= min(len(VALID[fam('kind')]) - 7, 80)
    post: _
    """
    kind = fam('kind')
    state = NATURAL[kind]
    base = VALID[kind]
    k = pick(k, 0, 80)
    hostile = base[:2] + k.to_bytes(4, 'big') + base[6:6 + k]
    conv, tr = run_hostile(state, hostile)
    ok = robust(state, conv, tr)
    if must_abort_len(kind, k):
        ok = ok and aborted(state, conv, tr)
    deep(ok and k == 3)
    return ok


@cond(bounds='established association (state 6) and releasing (state 7): a P-DATA-TF with one PDV whose length field '
             'takes each of {0, 1, 2, exact, exact+1, 65536, 2^32-1} (symbolic index), whose context id and message '
             'control header are symbolic bytes and which carries 0..2 (quick) / 0..4 (thorough) symbolic bytes of '
             '"command set"', family={'state': [6, 7]}, timeout=300)
def pdv_fuzz(li: int, cid: int, hdr: int, data: bytes) -> bool:
    """
    pre: 0 <= li <= 6 and 0 <= cid <= 255 and 0 <= hdr <= 255 and len(data) <= (4 if tier() == 'thorough' else 2)
    post: _
    """
    state = fam('state')
    exact = len(data) + 2
    L = [0, 1, 2, exact, exact + 1, 65536, 0xFFFFFFFF][pick(li, 0, 6)]
    body = L.to_bytes(4, 'big') + bytes([cid, hdr]) + data
    hostile = bytes([4, 0]) + len(body).to_bytes(4, 'big') + body
    conv, tr = run_hostile(state, hostile)
    ok = robust(state, conv, tr)
    deep(ok and hdr == 3 and li == 3 and len(data) == 2)
    return ok


@cond(bounds='each PDU type 1..7 in its natural state with a body of 0..4 (quick) / 0..6 (thorough) arbitrary symbolic bytes (length fixed up)',
      family={'kind': [1, 2, 3, 4, 5, 6, 7]}, timeout=300)
def raw_body(data: bytes, r: int) -> bool:
    """
    pre: len(data) <= (6 if tier() == 'thorough' else 4) and 0 <= r <= 255
    post: _
    """
    kind = fam('kind')
    state = NATURAL[kind]
    hostile = bytes([kind, r]) + len(data).to_bytes(4, 'big') + data
    conv, tr = run_hostile(state, hostile)
    ok = robust(state, conv, tr)
    if must_abort_len(kind, len(data)):
        ok = ok and aborted(state, conv, tr)
    deep(ok and len(data) == 4)
    return ok


@cond(bounds='every valid PDU kind in every waiting state incl. mid-message and the release-collision states (84 concrete combinations), followed by the peer closing',
      family=[dict(kind=k, state=s) for k in range(1, 8) for s in (2, 3, 5, 6, 7, 13, 60, 8, 9, 10, 11, 12)], timeout=120)
def any_pdu_any_state(x: int) -> bool:
    """
    pre: x == 0
    post: _
    """
    kind, state = fam('kind'), fam('state')
    conv, tr = run_hostile(state, VALID[kind])
    ok = robust(state, conv, tr)
    deep(ok)
    return ok


@cond(bounds='a peer that does not wait: n complete C-ECHO-RQ messages (n symbolic 1..48) pipelined in one segment while the '
             'local user reads nothing, followed by a PDU of unknown type and the close; state 6 (acceptor) - the loop '
             'must take every message, answer the invalid PDU with A-ABORT and end idle with the connection closed '
             '(an indication queue that blocks the loop when full would stop all of that)', timeout=240)
def pipelined_flood(n: int) -> bool:
    """
    pre: 1 <= n <= 48
    post: _
    """
    from vt import sim
    n = pick(n, 1, 48)
    with sim._no_tracing():
        hostile = ECHO * n + b'\x99\x00\x00\x00\x00\x02\xab\xcd'
        conv, tr = run_hostile(6, hostile)
        ok = robust(6, conv, tr) and aborted(6, conv, tr)
        ok = ok and len([i for i in tr.indications if i[0] != 'pdu']) == n
    deep(ok and n == 40)
    return ok


def _hostile_of(cname, args, famv):
    if cname == 'unknown_type':
        n = args['n']
        return famv['state'], bytes([args['t'], args['r']]) + n.to_bytes(4, 'big') + b'\x00' * n
    if cname == 'length_field':
        base = VALID[famv['kind']]
        return famv['state'], base[:2] + args['L'].to_bytes(4, 'big') + base[6:]
    if cname == 'byte_set':
        kind = famv['kind']
        off = structural_offsets(kind)[famv['i']]
        base = VALID[kind]
        return NATURAL[kind], base[:off] + bytes([args['val']]) + base[off + 1:]
    if cname == 'truncated':
        base = VALID[famv['kind']]
        k = args['k']
        return NATURAL[famv['kind']], base[:2] + k.to_bytes(4, 'big') + base[6:6 + k]
    if cname == 'pdv_fuzz':
        exact = len(args['data']) + 2
        L = [0, 1, 2, exact, exact + 1, 65536, 0xFFFFFFFF][args['li']]
        body = L.to_bytes(4, 'big') + bytes([args['cid'], args['hdr']]) + args['data']
        return famv['state'], bytes([4, 0]) + len(body).to_bytes(4, 'big') + body
    if cname == 'pipelined_flood':
        return 6, ECHO * args['n'] + b'\x99\x00\x00\x00\x00\x02\xab\xcd'
    if cname == 'raw_body':
        d = args['data']
        return NATURAL[famv['kind']], bytes([famv['kind'], args['r']]) + len(d).to_bytes(4, 'big') + d
    return famv['state'], VALID[famv['kind']]


def explain(cname, args, famv):
    state, hostile = _hostile_of(cname, args, famv)
    reset = bool(args.get('reset'))
    conv, tr = run_hostile(state, hostile, 'reset' if reset else 'close')
    return 'state Sta%d receives %s%s\n%r\nuser informed: %r; written after prefix: %r' % (
        state, hostile[:40].hex(), ', connection reset by the peer right behind it' if reset else '', tr,
        user_informed(tr, conv), written_after_prefix(state, tr))
