"""C19 -- retrieve (C-GET / C-MOVE) performs each sub-operation exactly once and reports true progress."""
import contextlib
import warnings
import vt
vt.use_repo()
warnings.simplefilter('ignore')
import pydicom
from vt import api
from vt.api import cond, deep, fam, tier, pick
from vt.harness.svc import RecAssoc
from pynetdicom2 import sopclass, dimsemessages as dm, statuses, exceptions, asceprovider, dsutils

ASSUMPTIONS = [
    'C-GET user and C-MOVE provider callables run on a real Association (real send/set_length/encode) over a recording '
    'provider; incoming messages are scripted; the application entity and the sub-association to the move destination '
    'are recording stubs (request_association refuses a destination of None, as the real one cannot connect to it)',
    'progress: after the k-th sub-operation the pending response must report remaining = total - k and k performed '
    '(completed, or completed + failed + warning, = k)',
]

IMPLICIT = pydicom.uid.ImplicitVRLittleEndian
GET_SOP = str(sopclass.PATIENT_ROOT_GET_SOP_CLASS)
MOVE_SOP = str(sopclass.PATIENT_ROOT_MOVE_SOP_CLASS)
CT = '1.2.840.10008.5.1.4.1.1.2'


def ctx_of(cid, sop):
    return asceprovider.PContextDef(cid, pydicom.uid.UID(sop), IMPLICIT)


def inst(i):
    ds = pydicom.Dataset()
    ds.SOPClassUID = CT
    ds.SOPInstanceUID = '1.2.3.%d' % i
    ds.PatientID = 'P%d' % i
    return ds


IDENT = pydicom.Dataset()
IDENT.QueryRetrieveLevel = 'STUDY'
IDENT.StudyInstanceUID = '1.2.3'


class GetAE(object):
    def __init__(self, status, fail_at):
        self.status = status
        self.fail_at = fail_at
        self.stored = []
        self.store_in_file = set()
        self.context_def_list = {}
        self.local_ae = {'aet': 'ME'}

    def on_receive_store(self, ctx, ds):
        self.stored.append(ds)
        if len(self.stored) - 1 == self.fail_at:
            raise exceptions.EventHandlingError('no')
        return self.status


def store_rq(i, mid):
    m = dm.CStoreRQMessage()
    m.message_id = mid
    m.sop_class_uid = CT
    m.affected_sop_instance_uid = '1.2.3.%d' % i
    m.priority = 0
    m.data_set = dsutils.encode(inst(i), True, True)
    return m


def get_rsp(status):
    m = dm.CGetRSPMessage()
    m.message_id_being_responded_to = 77
    m.sop_class_uid = GET_SOP
    m.status = status
    return m


@cond(bounds='C-GET user: n = 0..3 incoming C-STORE requests (symbolic) with symbolic message ids, arriving alternately on '
             'contexts 3 / 5 (symbolic which first), pending C-GET responses interleaved before each of them (symbolic booleans), '
             'final C-GET response success / warning / failure (symbolic), handler status symbolic and optionally '
             'raising EventHandlingError for one of the requests; n and the failing position per instance; provider thread '
             'drains queued responses at once or after the iteration (symbolic schedule)',
      family=[dict(n=n, fail_at=f) for n in range(4) for f in range(-1, n)], timeout=500)
def get_user(p0: bool, p1: bool, p2: bool, flip: bool, m0: int, m1: int, m2: int, fin: int, st: int,
             lazy: bool) -> bool:
    """
    pre: 0 <= m0 <= 65535 and 0 <= m1 <= 65535 and 0 <= m2 <= 65535 and 0 <= fin <= 2 and 0 <= st <= 65535
    post: _
    """
    n, fail_at = fam('n'), fam('fail_at')
    fin = pick(fin, 0, 2)
    ae = GetAE(st, fail_at)
    ae.context_def_list = {1: ctx_of(1, GET_SOP), 3: ctx_of(3, CT), 5: ctx_of(5, CT)}
    mids = [m0, m1, m2][:n]
    cids = ([5, 3, 5] if flip else [3, 5, 3])[:n]
    script = []
    for i in range(n):
        if (p0, p1, p2)[i]:
            script.append((get_rsp(0xFF00), 1))
        script.append((store_rq(i, mids[i]), cids[i]))
    final = (0x0000, 0xB000, 0xA702)[fin]
    script.append((get_rsp(final), 1))
    script.append((store_rq(9, 9), 3))              # after the final response: must stay unread
    asce = RecAssoc(ae, script=script, lazy=lazy)
    got = list(sopclass.qr_get_scu(asce, ctx_of(1, GET_SOP), IDENT, 77))
    sent = asce.sent()
    ok = len(asce.script) == 1 and len(sent) == 1 + n and sent[0].command_field == 0x0010 and sent[0].message_id == 77
    if not ok:
        return False                  # a request left unanswered (or answered twice), or an unread message consumed
    # every C-STORE request answered exactly once, on the context it arrived on
    for i in range(n):
        s = sent[1 + i]
        ok = ok and s.wellformed and s.one_context() == cids[i] and s.command_field == 0x8001 \
            and s.responded_to == mids[i] and s.sop_instance == '1.2.3.%d' % i and s.sop_class == CT
        ok = ok and s.status == (0xC000 if i == fail_at else st)
    # every received instance handed to the caller once and in order (all but the one whose handler failed)
    want = [i for i in range(n) if i != fail_at]
    ok = ok and len(got) == len(want) and len(ae.stored) == n
    for (c, ds), i in zip(got, want):
        ok = ok and str(ds.SOPInstanceUID) == '1.2.3.%d' % i
    deep(ok and (n < 2 or (p1 and not p0)) and flip)
    return ok


class Dest(object):
    """sub-association to the move destination"""

    def __init__(self, outcomes):
        self.outcomes = outcomes
        self.stored = []

    def get_scu(self, sop_class):
        def service(ds, msg_id):
            self.stored.append((str(sop_class), str(ds.SOPInstanceUID), msg_id))
            return statuses.Status(self.outcomes[len(self.stored) - 1], dm.CStoreRSPMessage)
        return service


class MoveAE(object):
    def __init__(self, result, dest):
        self.result = result
        self.dest = dest
        self.requests = []
        self.seen = []
        self.exit_fault = False       # the sub-association cannot be released in time (its peer does not answer)

    def on_receive_move(self, ctx, ds, destination):
        self.seen.append((ds, destination))
        return self.result

    @contextlib.contextmanager
    def request_association(self, remote_ae):
        self.requests.append(remote_ae)
        if remote_ae is None:
            raise exceptions.AssociationError('no destination to connect to')
        yield self.dest
        if self.exit_fault:
            raise exceptions.DCMTimeoutError()


@cond(bounds='C-MOVE provider: total = 0..3 sub-operations (symbolic), outcome of each success / warning B000 / failure '
             'A700 (symbolic), message id and context id symbolic, destination known / unknown when nothing is to be '
             'moved (symbolic); schedule (symbolic): the provider thread takes every queued response at once, or only '
             'after the service callable has returned (responses must say what they said when they were sent); the '
             'release of the sub-association works / times out (symbolic) - the final response is sent regardless; one '
             'instance per total', family={'total': [0, 1, 2, 3]}, timeout=400)
def move_provider(total: int, o0: int, o1: int, o2: int, mid: int, h: int, known: bool, lazy: bool,
                  exit_fault: bool) -> bool:
    """
    pre: total == fam('total') and 0 <= o0 <= 2 and 0 <= o1 <= 2 and 0 <= o2 <= 2 and 0 <= mid <= 65535 and 0 <= h <= 127
    pre: (total > 2 or o2 == 0) and (total > 1 or o1 == 0) and (total > 0 or o0 == 0)
    pre: not exit_fault or total < 3 or tier() == 'thorough'
    post: _
    """
    total = fam('total')
    cid = 2 * h + 1
    codes = [(0x0000, 0xB000, 0xA700)[pick(o, 0, 2)] for o in (o0, o1, o2)][:total]
    dest = Dest(codes)
    remote = {'aet': 'DEST', 'address': 'd', 'port': 104}
    ae = MoveAE((remote if (total > 0 or known) else None, total, iter([inst(i) for i in range(total)])), dest)
    ae.exit_fault = exit_fault
    asce = RecAssoc(ae, lazy=lazy)
    rq = dm.CMoveRQMessage()
    rq.message_id = mid
    rq.sop_class_uid = MOVE_SOP
    rq.priority = 0
    rq.move_destination = 'DEST'
    rq.data_set = dsutils.encode(IDENT, True, True)
    raised = None
    try:
        sopclass.qr_move_scp(asce, ctx_of(cid, MOVE_SOP), rq)
    except exceptions.NetDICOMError as e:
        raised = e
    sent = asce.sent()
    # a failing release of the sub-association may surface as an error - after the final response has gone out
    ok = raised is None or (exit_fault and total > 0)
    # each instance stored once, in order, at the designated destination
    ok = ok and [s[1] for s in dest.stored] == ['1.2.3.%d' % i for i in range(total)]
    ok = ok and (ae.requests == ([remote] if total > 0 else []))
    # progress: total pending responses, the k-th after k sub-operations; then exactly one final response
    ok = ok and len(sent) == total + 1
    if ok:
        nf = nw = 0
        for k in range(1, total + 1):
            s = sent[k - 1]
            nf += 1 if codes[k - 1] == 0xA700 else 0
            nw += 1 if codes[k - 1] == 0xB000 else 0
            done, rem, failed, warn = s.us(0x1021), s.us(0x1020), s.us(0x1022), s.us(0x1023)
            ok = ok and s.status == 0xFF00 and s.one_context() == cid and s.responded_to == mid \
                and s.command_field == 0x8021
            ok = ok and rem == total - k and failed == nf and warn == nw
            ok = ok and (done == k or done + failed + warn == k)
        fin = sent[-1]
        ok = ok and fin.status != 0xFF00 and fin.one_context() == cid and fin.responded_to == mid \
            and fin.command_field == 0x8021 and fin.us(0x1020) in (0, None)
    deep(ok and (total < 2 or o1 == 2) and lazy)
    return ok


def explain(cname, args, famv):
    return 'replay: see the condition source; progress counters are (0000,1020) remaining, 1021 completed, 1022 failed, 1023 warning'
