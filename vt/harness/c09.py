"""C09 -- the acceptor answers every proposed presentation context correctly (asceprovider.py, applicationentity.py)."""
import itertools
import warnings
import vt
vt.use_repo()
warnings.simplefilter('ignore')
from vt import api
from vt.api import cond, deep, fam, tier, pick
from vt.refs import negotiation as ref
from vt.harness import assoc as A
from pynetdicom2 import applicationentity, asceprovider, pdu, exceptions, userdataitems as udi

ASSUMPTIONS = [
    'application entity = a real applicationentity.AE object whose TCP server part is not constructed (AEBase.__init__ '
    '+ the real add_scp); services are recording callables with a sop_classes list; the acceptor is built without its '
    'provider thread: every association is a real AssociationAcceptor constructed by its constructor (which runs '
    'setup/handle/finish) with asceprovider.dulprovider replaced by a scripted recorder and a stand-in client socket',
    'universe: abstract syntaxes A, B (servable) and C (never served); 4 transfer syntaxes; context ids odd 1..255',
]

ABS = ['1.2.840.10008.5.1.4.1.1.2', '1.2.840.10008.5.1.4.1.1.4', '1.2.840.10008.5.1.4.1.1.7']   # A, B, C
TSU = ['1.2.840.10008.1.2', '1.2.840.10008.1.2.1', '1.2.840.10008.1.2.2', '1.2.840.10008.1.2.4.50']
PERMS = list(itertools.permutations(range(4)))


class Service(object):
    def __init__(self, name, sop_classes):
        self.name = name
        self.sop_classes = list(sop_classes)
        self.calls = []

    def __call__(self, asce, ctx, msg):
        self.calls.append((ctx, msg))


def make_ae(scp_mask, ts_bits):
    ae = object.__new__(applicationentity.AE)
    applicationentity.AEBase.__init__(ae, [t for t, b in zip(TSU, ts_bits) if b], 16384)
    # the entity's own configured title differs from the title it is called by (legal: the default
    # on_association_request does not screen called titles): the reply must repeat the REQUEST's titles
    ae.local_ae = {'address': 'here', 'port': 104, 'aet': 'CONFIGURED_AET'}
    svcs = [Service('A', [ABS[0]]), Service('B', [ABS[1]])]
    # C (and B) are configured for the *user* role only: being known as SCU must not make a class served
    ae.add_scu(Service('scuC', [ABS[2], ABS[1]]))
    for i in range(2):
        if scp_mask & (1 << i):
            ae.add_scp(svcs[i])
    return ae, svcs


def build_request(ctxs, called='SCP', calling='SCU', maxlen=32768):
    items = [pdu.ApplicationContextItem(A.APP_CTX)]
    for cid, abstract, tss in ctxs:
        items.append(pdu.PresentationContextItemRQ(cid, pdu.AbstractSyntaxSubItem(abstract),
                                                   [pdu.TransferSyntaxSubItem(t) for t in tss]))
    items.append(A.user_info(maxlen))
    return pdu.AAssociateRqPDU(called, calling, items)


def check_reply(acc, rq, ctxs, served, supported):
    """Compare the acceptor's reply and routing tables with the reference decision."""
    if acc is None or len(acc.dul.sent) < 1:
        return False
    rsp = acc.dul.sent[0]
    if getattr(rsp, 'pdu_type', None) != 2:
        return False
    if rsp.called_ae_title != rq.called_ae_title or rsp.calling_ae_title != rq.calling_ae_title:
        return False
    items = rsp.variable_items
    if len(items) != len(ctxs) + 2:
        return False
    if getattr(items[0], 'item_type', None) != 0x10 or items[0].context_name != A.APP_CTX:
        return False
    if getattr(items[-1], 'item_type', None) != 0x50:
        return False
    want = ref.decide(ctxs, served, supported)
    n_acc = 0
    for it, (cid, ok, allowed) in zip(items[1:-1], want):
        if getattr(it, 'item_type', None) != 0x21 or it.context_id != cid:
            return False
        if (it.result_reason == 0) != ok:
            return False
        if ok:
            n_acc += 1
            chosen = str(it.ts_sub_item.name)
            if chosen not in allowed:
                return False
            ctx = acc.accepted_contexts.get(cid)
            if ctx is None or ctx.id != cid or str(ctx.supported_ts) != chosen:
                return False
            route = acc.sop_classes_as_scp.get(cid)
            if route is None or route[0] != cid or str(route[2]) != chosen:
                return False
        else:
            if it.result_reason not in (1, 2, 3, 4):
                return False
            if cid in acc.accepted_contexts or cid in acc.sop_classes_as_scp:
                return False
    if len(acc.accepted_contexts) != n_acc or len(acc.sop_classes_as_scp) != n_acc:
        return False
    return acc.dul.accepted_contexts is acc.accepted_contexts or acc.dul.accepted_contexts == acc.accepted_contexts


class Msg(object):
    def __init__(self, sop):
        self.sop_class_uid = sop


def serve(ae, rq, msgs):
    """One whole association through the real AssociationAcceptor constructor: request, then the given messages."""
    acc, dul, err = A.run_acceptor(ae, 16384, [rq] + list(msgs))
    return acc, err


def check_dispatch(ae, rq, svcs, ctxs, served, supported, which):
    """A message arriving on context ctxs[which] (new association, same entity) is served iff it was accepted."""
    cid, abstract, tss = ctxs[which]
    want = ref.decide(ctxs, served, supported)[which]
    for s_ in svcs:
        del s_.calls[:]
    acc, err = serve(ae, rq, [(Msg(abstract), cid)])
    if err is None:
        outcome = 'served'
    elif isinstance(err, exceptions.ClassNotSupportedError):
        outcome = 'refused'
    else:
        outcome = 'other'
    calls = [(s.name, c) for s in svcs for c in s.calls]
    if want[1]:
        if outcome != 'served' or len(calls) != 1:
            return False
        name, (ctx, msg) = calls[0]
        return name == ('A' if abstract == ABS[0] else 'B') and ctx.id == cid and str(ctx.sop_class) == abstract \
            and str(ctx.supported_ts) in want[2]
    return outcome == 'refused' and calls == []


def _u():
    """size of the transfer-syntax universe"""
    return 4 if tier() == 'thorough' else 3


def _perms():
    return list(itertools.permutations(range(_u())))


@cond(bounds='one proposed context: abstract syntax A/B/C and served set (subset of {A,B}) per instance (12 instances); '
             'context id one of {1, 3, 77, 129, 255} varying with the path; symbolic: ordered list of 1..3 distinct transfer syntaxes from a '
             'universe of 3 (quick) / 4 (thorough) (permutation index x length), every subset of supported transfer '
             'syntaxes (symbolic booleans)',
      family={'abs': [0, 1, 2], 'scp': [0, 1, 2, 3]}, timeout=240, thorough_timeout=1200)
def accept_one(perm: int, k: int, s0: bool, s1: bool, s2: bool, s3: bool) -> bool:
    """
    pre: 0 <= perm < len(_perms()) and 1 <= k <= 3 and (_u() == 4 or not s3)
    post: _
    """
    perm, k = pick(perm, 0, 23), pick(k, 1, 3)
    cid = (1, 255, 129, 3, 77)[(perm + k) % 5]   # ids vary with the path (dict keys: a symbolic id would be realised)
    bits = (s0, s1, s2, s3)
    ae, svcs = make_ae(fam('scp'), bits)
    tss = [TSU[i] for i in _perms()[perm][:k]]
    ctxs = [(cid, ABS[fam('abs')], tss)]
    rq = build_request(ctxs)
    acc, err = serve(ae, rq, [])
    served = [ABS[i] for i in range(2) if fam('scp') & (1 << i)]
    supported = [t for t, b in zip(TSU, bits) if b]
    ok = err is None and check_reply(acc, rq, ctxs, served, supported)
    ok = ok and check_dispatch(ae, rq, svcs, ctxs, served, supported, 0)
    deep(ok and k == 3 and s2 and not s0)
    return ok


LISTS3 = [[TSU[0], TSU[1]], [TSU[1]], [TSU[1], TSU[0]]]


@cond(bounds='n = 0..3 proposed contexts (symbolic) with distinct odd ids in ascending, descending and mixed order (varying with the path), abstract syntax of each chosen by a '
             'symbolic index over A/B/C, transfer-syntax lists [T0,T1], [T1], [T1,T0] by position, every subset of '
             '{T0,T1} supported (symbolic); served set per instance; afterwards a message arrives on each of the '
             'contexts in turn', family={'scp': [0, 1, 2, 3]}, timeout=300)
def accept_many(n: int, a0: int, a1: int, a2: int, s0: bool, s1: bool) -> bool:
    """
    pre: 0 <= n <= 3 and 0 <= a0 <= 2 and 0 <= a1 <= 2 and 0 <= a2 <= 2
    post: _
    """
    n, a0, a1, a2 = pick(n, 0, 3), pick(a0, 0, 2), pick(a1, 0, 2), pick(a2, 0, 2)
    h0, h1, h2 = [(0, 1, 2), (2, 1, 0), (126, 0, 127), (3, 125, 4)][(a0 + 2 * a1 + a2) % 4]
    bits = (s0, s1, False, False)
    ae, svcs = make_ae(fam('scp'), bits)
    ctxs = [(2 * h + 1, ABS[a], l) for h, a, l in ((h0, a0, LISTS3[0]), (h1, a1, LISTS3[1]), (h2, a2, LISTS3[2]))][:n]
    rq = build_request(ctxs)
    acc, err = serve(ae, rq, [])
    served = [ABS[i] for i in range(2) if fam('scp') & (1 << i)]
    supported = [t for t, b in zip(TSU, bits) if b]
    ok = err is None and check_reply(acc, rq, ctxs, served, supported)
    n_acc = len(acc.accepted_contexts) if acc is not None else -1
    for which in range(n):
        ok = ok and check_dispatch(ae, rq, svcs, ctxs, served, supported, which)
    deep(ok and n == 3 and (n_acc == 2 or fam('scp') == 0))
    return ok


@cond(bounds='a full house: n = 120..128 proposed contexts (symbolic; 128 = every odd id 1..255, the legal maximum) for '
             'served and unserved classes alternating, ids ascending or descending (symbolic): one answer per context, '
             'same ids, same order, accepted iff served; the last context is served like the first', timeout=240)
def accept_full_house(n: int, desc: bool, s0: bool) -> bool:
    """
    pre: 120 <= n <= 128
    post: _
    """
    from vt import sim
    n = pick(n, 120, 128)
    desc, s0 = bool(pick(int(desc), 0, 1)), bool(pick(int(s0), 0, 1))
    with sim._no_tracing():
        bits = (s0, True, False, False)
        ae, svcs = make_ae(1, bits)
        ids = [2 * i + 1 for i in range(n)]
        if desc:
            ids.reverse()
        ctxs = [(cid, ABS[(cid // 2) % 3], [TSU[1]]) for cid in ids]
        rq = build_request(ctxs)
        acc, err = serve(ae, rq, [])
        served = [ABS[0]]
        supported = [t for t, b in zip(TSU, bits) if b]
        ok = err is None and check_reply(acc, rq, ctxs, served, supported)
        last_served = [i for i, c in enumerate(ctxs) if c[1] == ABS[0]][-1]
        ok = ok and check_dispatch(ae, rq, svcs, ctxs, served, supported, last_served)
        ok = ok and check_dispatch(ae, rq, svcs, ctxs, served, supported, len(ctxs) - 1)
    deep(ok and n == 128)
    return ok


@cond(bounds='two associations in a row on one entity: the first proposes context id 1 for a served class (accepted), '
             'the second proposes the same id for abstract syntax X (symbolic over A/B/C) with a symbolic transfer-syntax '
             'choice; served set per instance; a message then arrives on id 1 of the second association - what is served '
             'must follow from the second negotiation only', family={'scp': [1, 2, 3]}, timeout=240)
def accept_sequence(a2: int, t2: int, s0: bool, s1: bool) -> bool:
    """
    pre: 0 <= a2 <= 2 and 0 <= t2 <= 1
    post: _
    """
    a2, t2 = pick(a2, 0, 2), pick(t2, 0, 1)
    bits = (s0, s1, False, False)
    ae, svcs = make_ae(fam('scp'), bits)
    served = [ABS[i] for i in range(2) if fam('scp') & (1 << i)]
    supported = [t for t, b in zip(TSU, bits) if b]
    first = [(1, served[0], [TSU[0], TSU[1]]), (3, served[-1], [TSU[1]])]
    rq1 = build_request(first)
    acc1, err1 = serve(ae, rq1, [(Msg(served[0]), 1)])
    second = [(1, ABS[a2], [TSU[t2]]), (5, served[0], [TSU[1 - t2]])]
    rq2 = build_request(second)
    acc2, err2 = serve(ae, rq2, [])
    ok = check_reply(acc2, rq2, second, served, supported)
    ok = ok and check_dispatch(ae, rq2, svcs, second, served, supported, 0)
    # a context id of the *earlier* association that the later one never proposed is not served either
    for s_ in svcs:
        del s_.calls[:]
    acc3, err3 = serve(ae, rq2, [(Msg(served[-1]), 3)])
    ok = ok and isinstance(err3, exceptions.ClassNotSupportedError) and sum(len(s_.calls) for s_ in svcs) == 0
    deep(ok and a2 == 2 and s0)
    return ok


SERVE_IDS = (1, 3, 5, 7, 9)


@cond(bounds='ONE association, several messages: abstract syntax A is proposed on context 1 [implicit LE], 3 [explicit LE] and 5 '
             '[a syntax the entity does not support - rejected], B on 7; then two messages (each of the class its context was '
             'proposed for) arrive one after the other on contexts chosen by symbolic selectors from {1, 3, 5, 7, 9 (never proposed)}: every '
             'message is served iff ITS context was accepted for its class, by the service of that class, with that '
             'context\'s id and transfer syntax - whatever was served before it on the association', timeout=240)
def serve_sequence(i1: int, i2: int) -> bool:
    """
    pre: 0 <= i1 <= 4 and 0 <= i2 <= 4
    post: _
    """
    c1, c2 = SERVE_IDS[pick(i1, 0, 4)], SERVE_IDS[pick(i2, 0, 4)]
    ae, svcs = make_ae(3, (True, True, False, False))
    ctxs = [(1, ABS[0], [TSU[0]]), (3, ABS[0], [TSU[1]]), (5, ABS[0], [TSU[3]]), (7, ABS[1], [TSU[1], TSU[0]])]
    rq = build_request(ctxs)
    accepted = {1: (ABS[0], [TSU[0]]), 3: (ABS[0], [TSU[1]]), 7: (ABS[1], [TSU[1], TSU[0]])}
    # every message is of the class its context was proposed for (a message of another class on an accepted context is a
    # protocol violation by the peer; the library serves it by the message's class - observed, not judged here)
    msgs = [(Msg(ABS[1] if c == 7 else ABS[0]), c) for c in (c1, c2)]
    acc, err = serve(ae, rq, msgs)
    calls = [(s_.name, c) for s_ in svcs for c in s_.calls]
    # what must have happened, message by message (an unservable message ends the association with ClassNotSupportedError)
    want = []
    refused = False
    for m, cid in msgs:
        if cid in accepted and accepted[cid][0] == m.sop_class_uid:
            want.append(('A' if m.sop_class_uid == ABS[0] else 'B', cid, accepted[cid][1]))
        else:
            refused = True
            break
    ok = len(calls) == len(want) and (isinstance(err, exceptions.ClassNotSupportedError) if refused else True)
    if ok:
        # calls are grouped by service; compare as multisets in arrival order per service
        for name in ('A', 'B'):
            got = [(c[0].id, str(c[0].supported_ts), str(c[0].sop_class)) for n_, c in calls if n_ == name]
            exp = [w for w in want if w[0] == name]
            ok = ok and len(got) == len(exp)
            for g, w in zip(got, exp):
                ok = ok and g[0] == w[1] and g[1] in w[2] and g[2] == (ABS[0] if name == 'A' else ABS[1])
    deep(ok and c1 == 1 and c2 == 3)
    return ok


@cond(bounds='AE titles of the request: symbolic strings of 0..2 characters (printable ASCII); requestor maximum length '
             'symbolic; the reply repeats both titles and the application context', timeout=120)
def accept_titles(called: str, calling: str, mx: int) -> bool:
    """
    pre: len(called) <= 2 and len(calling) <= 2 and 7 <= mx <= 0xFFFFFFFF
    post: _
    """
    ae, svcs = make_ae(1, (True, False, False, False))
    ctxs = [(1, ABS[0], [TSU[0]])]
    rq = build_request(ctxs, called, calling, mx)
    acc, err = serve(ae, rq, [])
    ok = err is None and check_reply(acc, rq, ctxs, [ABS[0]], [TSU[0]]) and acc.remote_ae == calling
    deep(ok and len(called) == 2 and called != calling)
    return ok


def explain(cname, args, famv):
    return 'reference decision: accepted iff abstract syntax served and proposed ∩ supported non-empty; see harness c09'
