"""C01 -- PDU encode/decode round-trip (pdu.py, userdataitems.py).

Assertion of every condition:  cls.decode(x.encode()) equals x field by field (recursive, lists in order)
AND decode(b).encode() == b AND len(b) == x.total_length().
"""
import warnings
import vt
vt.use_repo()
warnings.simplefilter('ignore')   # pydicom warns (once per location: stateful) about odd UIDs
from vt import api
from vt.api import cond, deep, fam, tier, pick
from vt.harness.pdus import (pdu, udi, same, mkstream, sub_ok, build_sub, sample_sub, ae_title_ok, uid_chars,
                             ascii_printable, UIDCH, NAMECH, APPCH, SUB_NAMES, KNOWN_SUB_TYPES)

ASSUMPTIONS = [
    'validity predicate: AE titles 0-16 chars of 0x20..0x7E without backslash / leading / trailing space; UIDs 0-64 '
    'chars of [0-9.]; unsigned fields within their width; fixed-length sub-items keep item_length 4; generic sub-item '
    'types not among the 8 known types and not 0; user-information item is the last variable item',
    'UID fields: symbolic *length* over the whole legal range with distinct concrete characters, symbolic *content* '
    'up to 3 characters (quick) / 5 (thorough)',
]


def total_len(x):
    t = x.total_length
    return t() if callable(t) else t


_HIDDEN = [api.ClassState(pdu), api.ClassState(udi), api.ModuleState(pdu, skip=('PDU_TYPES',)),
           api.ModuleState(udi)]


def fresh():
    """every condition starts from the state of a freshly imported library: containers kept on classes / modules of the
    codec (caches, registries) are put back (a cache that survives is then exercised on purpose by `after_history`)"""
    for st in _HIDDEN:
        st.restore()


def rt_pdu(cls, x, reset=True):
    if reset:
        fresh()
    b = x.encode()
    y = cls.decode(b)
    return same(x, y) and y.encode() == b and len(b) == x.total_length()


def rt_item(cls, x, reset=True):
    """Items decode from a stream and must consume exactly their own bytes."""
    if reset:
        fresh()
    b = x.encode()
    st = mkstream(b + b'\x51\x00\x00\x04\x00\x00\x40\x00')   # a MaximumLength sub-item follows
    y = cls.decode(st)
    return same(x, y) and y.encode() == b and len(b) == total_len(x) and st.tell() == len(b)


# ------------------------------------------------------------------------------------------------
# 1. fixed-layout PDUs
# ------------------------------------------------------------------------------------------------

@cond(bounds='result, source, reason, reserved1, reserved2: every value 0..255 (all 256^5 combinations)')
def rj_roundtrip(result: int, source: int, reason: int, r1: int, r2: int) -> bool:
    """
    pre: 0 <= result <= 255 and 0 <= source <= 255 and 0 <= reason <= 255 and 0 <= r1 <= 255 and 0 <= r2 <= 255
    post: _
    """
    x = pdu.AAssociateRjPDU(result, source, reason, r1, r2)
    ok = rt_pdu(pdu.AAssociateRjPDU, x) and x.total_length() == 10
    deep(ok and reason == 77)
    return ok


@cond(bounds='reserved1 0..255, reserved2 0..2^32-1, both A-RELEASE-RQ and -RP', family={'rp': [0, 1]})
def release_roundtrip(r1: int, r2: int) -> bool:
    """
    pre: 0 <= r1 <= 255 and 0 <= r2 <= 0xFFFFFFFF
    post: _
    """
    cls = pdu.AReleaseRpPDU if fam('rp') else pdu.AReleaseRqPDU
    x = cls(r1, r2)
    ok = rt_pdu(cls, x) and x.total_length() == 10 and x.encode()[0] == (6 if fam('rp') else 5)
    deep(ok and r2 == 0xFFFFFFFF)
    return ok


@cond(bounds='source, reason, reserved1..3: every value 0..255')
def abort_roundtrip(source: int, reason: int, r1: int, r2: int, r3: int) -> bool:
    """
    pre: 0 <= source <= 255 and 0 <= reason <= 255 and 0 <= r1 <= 255 and 0 <= r2 <= 255 and 0 <= r3 <= 255
    post: _
    """
    x = pdu.AAbortPDU(source, reason, r1, r2, r3)
    ok = rt_pdu(pdu.AAbortPDU, x) and x.total_length() == 10
    deep(ok and source == 2 and reason == 6)
    return ok


@cond(bounds='A-ASSOCIATE-RQ/AC 74-byte header, empty item list: protocol_version, reserved2 0..65535, reserved1 '
             '0..255, two of the eight reserved3 words 0..2^32-1 (others 0); called title length 0..16 (alphabet), '
             'calling title length 0..16 (one of the two lengths symbolic per instance, the other 16 or 0)',
      family={'ac': [0, 1], 'which': [0, 1]}, timeout=90)
def assoc_header_ints(pv: int, r1: int, r2: int, w0: int, w7: int, n: int) -> bool:
    """
    pre: 0 <= pv <= 65535 and 0 <= r1 <= 255 and 0 <= r2 <= 65535 and 0 <= w0 <= 0xFFFFFFFF and 0 <= w7 <= 0xFFFFFFFF
    pre: 0 <= n <= 16
    post: _
    """
    cls = pdu.AAssociateAcPDU if fam('ac') else pdu.AAssociateRqPDU
    n = pick(n, 0, 16)
    n1, n2 = (n, 0) if fam('which') == 0 else (16, n)
    x = cls(NAMECH[:n1], 'Calling_AE-Title'[:n2], [], pv, r1, r2, (w0, 0, 0, 0, 0, 0, 0, w7))
    ok = rt_pdu(cls, x) and x.total_length() == 74
    deep(ok and n == 9 and w7 == 5)
    return ok


MULTI = ['A B', 'A  B', 'AB', 'A~', '~ ~ ~', 'a b c d e f g h', 'ABCDEFGHIJKLMNO', 'ABCDEFGHIJKLMNOP', 'x' * 15 + '~',
         'A' + ' ' * 14 + 'B']


@cond(bounds='A-ASSOCIATE-RQ header: called / calling AE title (one at a time, the other concrete) = prefix + one symbolic '
             'character (any printable ASCII per the validity predicate) + suffix, prefix / suffix taken from 10 titles '
             'with inner spaces / full width cut at a position given per instance (the byte-wise strip / pad code '
             'makes CrossHair enumerate the 95 values of every symbolic character, so one character is symbolic at a time)',
      family=lambda tr: [dict(which=w, n=n) for w in (0, 1) for n in ((0, 1, 2, 3) if tr == 'thorough' else (0, 1))],
      timeout=240, thorough_timeout=900,
      outside='AE titles with two or more simultaneously symbolic characters')
def assoc_header_titles(t: str, m: int) -> bool:
    """
    pre: len(t) == min(fam('n'), 1) and (fam('n') < 2 or 0 <= m < len(MULTI)) and (fam('n') >= 2 or m == 0)
    post: _
    """
    n = fam('n')
    if n >= 2:
        base = MULTI[pick(m, 0, len(MULTI) - 1)]
        cut = 0 if n == 2 else len(base) - 1            # the symbolic character replaces the first / the last one
        t = base[:cut] + t + base[cut + 1:]
    if not ae_title_ok(t):
        return True
    called, calling = (t, 'CALLING AE') if fam('which') == 0 else ('CALLED', t)
    x = pdu.AAssociateRqPDU(called, calling, [])
    ok = rt_pdu(pdu.AAssociateRqPDU, x)
    deep(ok)
    return ok


def _tl():
    return 3 if tier() == 'thorough' else 2


# ------------------------------------------------------------------------------------------------
# 2. user-information sub-items: every kind, every ordered adjacency, and last
# ------------------------------------------------------------------------------------------------

def _succ_list(succ, c):
    return [] if succ == 9 else [sample_sub(succ, c)]


@cond(bounds='each sub-item kind alone (followed by a MaximumLength sub-item): every integer field over its full '
             'width, UID/name length over the whole legal range 0..64 / 0..16 and app-info / user-data / secondary-'
             'field length 0..32 / 0..16 (concrete distinct characters; one length symbolic per instance)',
      family=lambda t: [dict(kind=k, lenvar=v) for k in range(9) for v in ('n', 'm')
                        if not (v == 'm' and k not in (5, 6, 8))], timeout=120,
      outside='symbolic text contents longer than 3 (quick) / 5 (thorough) characters')
def sub_single(a: int, b: int, r: int, n: int, m: int) -> bool:
    """
    pre: sub_ok(fam('kind'), a, b, r, n, m, 64 if fam('lenvar') == 'n' else 2, 32 if fam('lenvar') == 'm' else 2)
    post: _
    """
    first = build_sub(fam('kind'), a, b, r, n, m)
    ok = rt_item(type(first), first)
    x = pdu.UserInformationItem([first, udi.MaximumLengthSubItem(a)])
    raw = x.encode()
    y = pdu.UserInformationItem.decode(mkstream(raw))
    ok = ok and same(x, y) and y.encode() == raw and len(raw) == x.total_length()
    deep(ok and len(y.user_data) == 2 and (n > 2 or m > 2 or a > 2))
    return ok


@cond(bounds='every ordered adjacency: sub-item of kind K (9 kinds; every integer field over its full width, text / '
             'data lengths 0..2 symbolic) immediately followed by a sub-item of kind S (9 kinds, one symbolic integer '
             'field) or last in the list (S=9); the pair follows a leading MaximumLength sub-item',
      family={'kind': list(range(9)), 'succ': list(range(10))}, timeout=120)
def sub_adjacent(a: int, b: int, r: int, n: int, m: int, c: int, ru: int) -> bool:
    """
    pre: sub_ok(fam('kind'), a, b, r, n, m, 2, 2) and 0 <= c <= 0xFFFFFFFF and 0 <= ru <= 255
    post: _
    """
    kind, succ = fam('kind'), fam('succ')
    first = build_sub(kind, a, b, r, n, m)
    items = [udi.MaximumLengthSubItem(16384), first] + _succ_list(succ, c)
    x = pdu.UserInformationItem(items, reserved=ru)
    raw = x.encode()
    st = mkstream(raw)
    y = pdu.UserInformationItem.decode(st)
    ok = same(x, y) and y.encode() == raw and len(raw) == x.total_length() and st.tell() == len(raw)
    deep(ok and len(y.user_data) == len(items) and (n > 1 or m > 1 or a > 1))
    return ok


class _UidModel(object):
    """Model of the pydicom.uid module as seen by pdu.py / userdataitems.py: UID(s) == s.strip() (validation only warns)."""
    @staticmethod
    def UID(val, validation_mode=None):
        if not isinstance(val, str):
            raise TypeError('A UID must be created from a string')
        return val.strip()


def _install_uid_model():
    """Under the solver pdu.py / userdataitems.py see the UID model; replays use the real pydicom class."""
    from vt import api
    if not api.REPLAY:
        pdu.uid = udi.uid = _UidModel


_install_uid_model()


@cond(bounds='sub-item kinds with text fields, symbolic *content*: UID / name (printable non-space ASCII, a superset '
             'of [0-9.]) and data (any bytes) of length 0..3 (quick) / 0..5 (thorough), followed by a MaximumLength '
             'sub-item; pydicom.uid.UID is replaced by its model (strip) under the solver, the replay uses the real one',
      family={'kind': [1, 2, 4, 5, 6, 7, 8]}, timeout=120, thorough_timeout=900)
def sub_contents(s: str, d: bytes) -> bool:
    """
    pre: len(s) <= _cl() and len(d) <= _cl()
    pre: _content_ok(fam('kind'), s, d)
    post: _
    """
    kind = fam('kind')

    def body():
        first = build_sub(kind, 0x5B if kind == 8 else 1, 1, 0, 0, 0, uid_s=s, name_s=s, data_s=d)
        x = pdu.UserInformationItem([first, udi.MaximumLengthSubItem(77)])
        raw = x.encode()
        st = mkstream(raw)
        y = pdu.UserInformationItem.decode(st)
        return same(x, y) and y.encode() == raw and len(raw) == x.total_length() and len(y.user_data) == 2
    ok = body()
    deep(ok and (len(s) >= 2 or len(d) >= 2))
    return ok


def _cl():
    return 5 if tier() == 'thorough' else 3


def _nonspace(s):
    for ch in s:
        if not 33 <= ord(ch) <= 126:
            return False
    return True


def _content_ok(kind, s, d):
    if kind in (1, 2, 4, 6, 7):
        return _nonspace(s) and len(d) == 0
    if kind == 5:
        return _nonspace(s)
    if kind == 8:
        return len(s) == 0
    return False


# ------------------------------------------------------------------------------------------------
# 3. presentation-context items
# ------------------------------------------------------------------------------------------------

TS = ['1.2.840.10008.1.2', '1.2.840.10008.1.2.1', '1.2.840.10008.1.2.2', '1.2.840.10008.1.2.4.50']


def _pl():
    return 2 if tier() == 'thorough' else 1


def _utf8_ok(s_):
    for ch in s_:
        if 0xD800 <= ord(ch) <= 0xDFFF:
            return False
    return True


@cond(bounds='a whole A-ASSOCIATE-RQ whose user-information item carries a User Identity sub-item with symbolic UTF-8 CONTENT '
             '(primary 0..1 (thorough: 0..2), secondary 0..1 characters over the whole Unicode range, 1-4 byte encodings, lone surrogates '
             'excluded; identity type and response flag symbolic bytes) between two other sub-items, with or without an '
             'application-information trailer ending in NUL (generic sub-item after it): the nested length fields (sub-item, '
             'user information, PDU) and the decoders that honour them must agree - every sub-item comes back intact and '
             're-encoding reproduces the bytes', timeout=240, thorough_timeout=900)
def assoc_rq_user_identity_text(p: str, q: str, a: int, b: int, trailer: bool) -> bool:
    """
    pre: len(p) <= _pl() and len(q) <= 1 and _utf8_ok(p) and _utf8_ok(q) and 0 <= a <= 255 and 0 <= b <= 255
    post: _
    """
    subs = [udi.MaximumLengthSubItem(16384),
            udi.UserIdentityNegotiationSubItem(p, q, user_identity_type=a, positive_response_req=b),
            udi.ImplementationVersionNameSubItem('V1')]
    if trailer:
        subs.append(udi.GenericUserDataSubItem(0x60, b'\x01\x01\x00'))
    x = pdu.AAssociateRqPDU('CALLED', 'CALLING', [pdu.ApplicationContextItem('1.2.840.10008.3.1.1.1'),
                                                   pdu.UserInformationItem(subs)])
    ok = rt_pdu(pdu.AAssociateRqPDU, x)
    deep(ok and len(p) == _pl() and ord(p[0]) > 0x7FF and len(q) == 1 and ord(q[0]) > 127 and trailer)
    return ok


@cond(bounds='presentation-context item (RQ): context id 0..255, 4 reserved bytes 0..255, abstract-syntax UID length '
             '0..64, number of transfer-syntax sub-items 0..3 (one instance each), reserved byte of each sub-item symbolic',
      family={'k': [0, 1, 2, 3]}, timeout=120)
def pc_rq_roundtrip(cid: int, r1: int, r2: int, r3: int, r4: int, n: int, rs: int) -> bool:
    """
    pre: 0 <= cid <= 255 and 0 <= r1 <= 255 and 0 <= r2 <= 255 and 0 <= r3 <= 255 and 0 <= r4 <= 255
    pre: 0 <= n <= 64 and 0 <= rs <= 255
    post: _
    """
    k = fam('k')
    n = pick(n, 0, 64)
    x = pdu.PresentationContextItemRQ(cid, pdu.AbstractSyntaxSubItem(UIDCH[:n], rs),
                                      [pdu.TransferSyntaxSubItem(t, rs) for t in TS[:k]], r1, r2, r3, r4)
    ok = rt_item(pdu.PresentationContextItemRQ, x)
    deep(ok and n == 64)
    return ok


@cond(bounds='presentation-context item (AC): context id, result/reason, 3 reserved bytes each 0..255, transfer '
             'syntax UID length 0..64', timeout=120)
def pc_ac_roundtrip(cid: int, res: int, r1: int, r2: int, r3: int, n: int, rs: int) -> bool:
    """
    pre: 0 <= cid <= 255 and 0 <= res <= 255 and 0 <= r1 <= 255 and 0 <= r2 <= 255 and 0 <= r3 <= 255
    pre: 0 <= n <= 64 and 0 <= rs <= 255
    post: _
    """
    n = pick(n, 0, 64)
    x = pdu.PresentationContextItemAC(cid, res, pdu.TransferSyntaxSubItem(UIDCH[:n], rs), r1, r2, r3)
    ok = rt_item(pdu.PresentationContextItemAC, x)
    deep(ok and res == 4 and n == 0)
    return ok


@cond(bounds='application-context item: name length 0..64, reserved 0..255; abstract/transfer syntax sub-items alone')
def app_context_roundtrip(n: int, r: int) -> bool:
    """
    pre: 0 <= n <= 64 and 0 <= r <= 255
    post: _
    """
    n = pick(n, 0, 64)
    ok = rt_item(pdu.ApplicationContextItem, pdu.ApplicationContextItem(UIDCH[:n], r))
    ok = ok and rt_item(pdu.AbstractSyntaxSubItem, pdu.AbstractSyntaxSubItem(UIDCH[:n], r))
    ok = ok and rt_item(pdu.TransferSyntaxSubItem, pdu.TransferSyntaxSubItem(UIDCH[:n], r))
    deep(ok and n == 33)
    return ok


# ------------------------------------------------------------------------------------------------
# 4. whole A-ASSOCIATE PDUs with variable-item lists
# ------------------------------------------------------------------------------------------------

TRIPLES = [((i, (i + 1) % 9, (i + 2) % 9)) for i in range(9)] + [((i + 2) % 9, (i + 1) % 9, i) for i in range(9)]


@cond(bounds='A-ASSOCIATE-RQ: [application context, k presentation contexts (k symbolic 0..3, context ids symbolic '
             '0..255 each: any order, also descending and repeated), '
             'user information with j sub-items (j symbolic 0..3) of kinds given by 18 triples covering every kind in '
             'every position]', family={'triple': list(range(18))}, timeout=120, thorough_timeout=600)
def assoc_rq_lists(k: int, j: int, id0: int, id1: int, id2: int, c: int) -> bool:
    """
    pre: 0 <= k <= 3 and 0 <= j <= 3 and 0 <= id0 <= 255 and 0 <= id1 <= 255 and 0 <= id2 <= 255 and 0 <= c <= 0xFFFFFFFF
    post: _
    """
    k, j = pick(k, 0, 3), pick(j, 0, 3)
    ids = (id0, id1, id2)
    pcs = [pdu.PresentationContextItemRQ(ids[i], pdu.AbstractSyntaxSubItem(UIDCH[:20 + i]),
                                         [pdu.TransferSyntaxSubItem(t) for t in TS[:i + 1]]) for i in range(k)]
    subs = [sample_sub(s_, c) for s_ in TRIPLES[fam('triple')][:j]]
    items = [pdu.ApplicationContextItem('1.2.840.10008.3.1.1.1')] + pcs + [pdu.UserInformationItem(subs)]
    x = pdu.AAssociateRqPDU('CALLED', 'CALLING', items)
    ok = rt_pdu(pdu.AAssociateRqPDU, x)
    deep(ok and k == 3 and j == 3 and id0 > id1 > id2)
    return ok


@cond(bounds='A-ASSOCIATE-AC: [application context, k presentation-context AC items (k symbolic 0..3, result and context id of each '
             'symbolic 0..255, any order), user information [MaximumLength(symbolic), ImplementationClassUID]]', timeout=180)
def assoc_ac_lists(k: int, id0: int, id1: int, id2: int, res0: int, res1: int, res2: int, mx: int) -> bool:
    """
    pre: 0 <= id1 <= 255 and 0 <= id2 <= 255
    pre: 0 <= k <= 3 and 0 <= id0 <= 255 and 0 <= res0 <= 255 and 0 <= res1 <= 255 and 0 <= res2 <= 255
    pre: 0 <= mx <= 0xFFFFFFFF
    post: _
    """
    res = (res0, res1, res2)
    k = pick(k, 0, 3)
    ids = (id0, id1, id2)
    pcs = [pdu.PresentationContextItemAC(ids[i], res[i], pdu.TransferSyntaxSubItem(TS[i] if res[i] == 0 else ''))
           for i in range(k)]
    ui = pdu.UserInformationItem([udi.MaximumLengthSubItem(mx), udi.ImplementationClassUIDSubItem(UIDCH[:30])])
    x = pdu.AAssociateAcPDU('CALLED', 'CALLING', [pdu.ApplicationContextItem('1.2.840.10008.3.1.1.1')] + pcs + [ui])
    ok = rt_pdu(pdu.AAssociateAcPDU, x)
    deep(ok and k == 3 and res1 == 0 and res2 == 3 and id0 > id2 > id1)
    return ok


# ------------------------------------------------------------------------------------------------
# 4b. the round trip does not depend on what was decoded / encoded before
# ------------------------------------------------------------------------------------------------

HISTORY_KINDS = ['sub%d' % i for i in range(9)] + ['pc_rq', 'pc_ac', 'rq', 'ac', 'rj', 'abort', 'pdata']


def _hist_value(kind, c, r):
    """a value of `kind` whose integer fields come from c (32 bit) and r (8 bit); text fields are the same for every c, r"""
    if kind.startswith('sub'):
        i = int(kind[3:])
        s_ = sample_sub(i, c)
        s_.reserved = r
        return pdu.UserInformationItem([s_, udi.MaximumLengthSubItem(c)]), pdu.UserInformationItem
    if kind == 'pc_rq':
        return pdu.PresentationContextItemRQ(c & 255, pdu.AbstractSyntaxSubItem(UIDCH[:20], r),
                                             [pdu.TransferSyntaxSubItem(t, r) for t in TS[:2]], r, r, r, r), \
            pdu.PresentationContextItemRQ
    if kind == 'pc_ac':
        return pdu.PresentationContextItemAC(c & 255, r, pdu.TransferSyntaxSubItem(TS[0], r), r, r, r), \
            pdu.PresentationContextItemAC
    if kind in ('rq', 'ac'):
        cls = pdu.AAssociateRqPDU if kind == 'rq' else pdu.AAssociateAcPDU
        pc = _hist_value('pc_rq' if kind == 'rq' else 'pc_ac', c, r)[0]
        ui = pdu.UserInformationItem([udi.MaximumLengthSubItem(c), udi.ImplementationClassUIDSubItem('1.2.3', r)])
        return cls('CALLED', 'CALLING', [pdu.ApplicationContextItem('1.2.840.10008.3.1.1.1', r), pc, ui],
                   c & 0xFFFF, r), cls
    if kind == 'rj':
        return pdu.AAssociateRjPDU(r, c & 255, (c >> 8) & 255), pdu.AAssociateRjPDU
    if kind == 'abort':
        return pdu.AAbortPDU(r, c & 255), pdu.AAbortPDU
    return pdu.PDataTfPDU([pdu.PresentationDataValueItem(r, APPCH[:3]),
                           pdu.PresentationDataValueItem(c & 255, APPCH[:2])]), pdu.PDataTfPDU


def rt_last_item(cls, x, reset=True):
    """the user-information item is the last variable item (validity predicate): nothing follows it in the stream"""
    if reset:
        fresh()
    b = x.encode()
    st = mkstream(b)
    y = cls.decode(st)
    return same(x, y) and y.encode() == b and len(b) == total_len(x)


@cond(bounds='history: a value of each kind (9 sub-item kinds inside a user-information item, presentation-context RQ / AC '
             'items, A-ASSOCIATE-RQ / AC, A-ASSOCIATE-RJ, A-ABORT, P-DATA-TF) is encoded and decoded with one set of '
             'symbolic integer / reserved fields, THEN a second value of the same kind with the same text fields but an '
             'independent second set of symbolic fields must round-trip (decoder / encoder state must not carry over)',
      family={'kind': HISTORY_KINDS}, timeout=180)
def after_history(c1: int, r1: int, c2: int, r2: int) -> bool:
    """
    pre: 0 <= c1 <= 0xFFFFFFFF and 0 <= c2 <= 0xFFFFFFFF and 0 <= r1 <= 255 and 0 <= r2 <= 255
    post: _
    """
    kind = fam('kind')
    fresh()
    x1, cls = _hist_value(kind, c1, r1)
    x2, _ = _hist_value(kind, c2, r2)
    rt = rt_pdu if kind in ('rq', 'ac', 'rj', 'abort', 'pdata') else (rt_last_item if kind.startswith('sub') else rt_item)
    ok = rt(cls, x1, reset=False)
    ok = ok and rt(cls, x2, reset=False)
    # and the first value still reads the same afterwards
    ok = ok and rt(cls, x1, reset=False)
    deep(ok and r1 != r2 and c1 != c2)
    return ok


# ------------------------------------------------------------------------------------------------
# 5. P-DATA-TF
# ------------------------------------------------------------------------------------------------

@cond(bounds='P-DATA-TF with 1..3 PDVs (one instance per count), context ids 0..255, reserved 0..255, payloads = symbolic '
             'bytes of length 0..4 (first PDV) and symbolic length 0..2 with concrete content (others)',
      family={'k': [1, 2, 3]}, timeout=120, outside='PDV payloads with more than 4 symbolic bytes of content')
def pdata_roundtrip(cid: int, r: int, d0: bytes, n1: int, n2: int) -> bool:
    """
    pre: 0 <= cid <= 255 and 0 <= r <= 255 and len(d0) <= 4 and 0 <= n1 <= 2 and 0 <= n2 <= 2
    post: _
    """
    k = fam('k')
    n1, n2 = pick(n1, 0, 2), pick(n2, 0, 2)
    pdvs = [pdu.PresentationDataValueItem(cid, d0), pdu.PresentationDataValueItem(255 - cid, APPCH[:n1]),
            pdu.PresentationDataValueItem(1, APPCH[:n2])][:k]
    x = pdu.PDataTfPDU(pdvs, r)
    ok = rt_pdu(pdu.PDataTfPDU, x)
    deep(ok and len(d0) == 3 and n1 == 0)
    return ok


BIG = [0, 1, 65534, 65535, 65536, 65537, 131072, 1 << 20]


@cond(bounds='P-DATA-TF with one or two PDVs whose payload length is chosen by a symbolic index from {0, 1, 65534, '
             '65535, 65536, 65537, 2^17, 2^20} (concrete content): the length arithmetic beyond 64 KiB',
      timeout=120)
def pdata_big(i: int, j: int, two: bool, cid: int) -> bool:
    """
    pre: 0 <= i < 8 and 0 <= j < 8 and 0 <= cid <= 255
    post: _
    """
    i, j = pick(i, 0, 7), pick(j, 0, 7)
    pdvs = [pdu.PresentationDataValueItem(cid, b'\xAA' * BIG[i])]
    if two:
        pdvs.append(pdu.PresentationDataValueItem(cid, b'\x55' * BIG[j]))
    x = pdu.PDataTfPDU(pdvs)
    ok = rt_pdu(pdu.PDataTfPDU, x)
    deep(ok and two and i == 5 and j == 3)
    return ok
