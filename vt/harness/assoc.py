"""Association objects built without provider threads (shared by C09, C10, C11, C14, C17...)."""
import collections

import vt
vt.use_repo()
from pynetdicom2 import asceprovider, pdu, userdataitems as udi, exceptions

APP_CTX = '1.2.840.10008.3.1.1.1'


class ScriptDul(object):
    """Stands for the DUL provider as seen by an association: records send(), replays a script on receive()."""

    def __init__(self, script=()):
        self.sent = []
        self.script = collections.deque(script)
        self.accepted_contexts = None
        self.killed = False
        self.stop_calls = 0
        self.max_pdu_length = 65536      # the real provider keeps the LOCAL receive maximum it was constructed with

    def send(self, x):
        self.sent.append(x)

    def receive(self, timeout):
        if not self.script:
            raise exceptions.DCMTimeoutError()
        return self.script.popleft()

    def stop(self):
        self.stop_calls += 1
        return True

    def kill(self):
        self.killed = True


class StubAE(object):
    """The application-entity attributes an association reads."""

    def __init__(self, aet='LOCAL', supported_ts=(), supported_scp=None, supported_scu=None, context_def_list=None,
                 store_in_file=()):
        self.local_ae = {'aet': aet, 'address': 'localhost', 'port': 11112}
        self.timeout = 15
        self.supported_ts = frozenset(supported_ts)
        self.supported_scp = supported_scp if supported_scp is not None else {}
        self.supported_scu = supported_scu if supported_scu is not None else {}
        self.context_def_list = context_def_list if context_def_list is not None else {}
        self.store_in_file = set(store_in_file)
        self.responses = []
        self.requests = []
        self.reject_with = None

    def copy_context_def_list(self):
        return dict(self.context_def_list)

    def on_association_request(self, asce, assoc):
        self.requests.append(assoc)
        if self.reject_with is not None:
            raise exceptions.AssociationRejectedError(*self.reject_with)

    def on_association_response(self, response):
        self.responses.append(response)

    def get_file(self, ctx, command_set):
        raise AssertionError('get_file not expected')


def make_acceptor(ae, max_pdu_length, script=()):
    a = object.__new__(asceprovider.AssociationAcceptor)
    a.ae = ae
    a.dul = ScriptDul(script)
    a.dul.max_pdu_length = max_pdu_length
    a.association_established = False
    a.max_pdu_length = max_pdu_length
    a.accepted_contexts = {}
    a.is_killed = False
    a.sop_classes_as_scp = {}
    a.remote_ae = b''
    return a


def make_requester(ae, max_pdu_length, remote_ae, script=()):
    a = object.__new__(asceprovider.AssociationRequester)
    a.ae = ae
    a.dul = ScriptDul(script)
    a.dul.max_pdu_length = max_pdu_length
    a.association_established = False
    a.max_pdu_length = max_pdu_length
    a.accepted_contexts = {}
    a.context_def_list = ae.copy_context_def_list()
    a.remote_ae = remote_ae
    a.sop_classes_as_scu = {}
    return a


def user_info(maxlen, extra=()):
    return pdu.UserInformationItem([udi.MaximumLengthSubItem(maxlen),
                                    udi.ImplementationClassUIDSubItem('1.2.3.4')] + list(extra))


def find_maxlen(assoc_pdu):
    """Value of the Maximum Length sub-item (type 51H) of an A-ASSOCIATE-RQ/AC, or None."""
    for item in assoc_pdu.variable_items:
        if getattr(item, 'item_type', None) == 0x50:
            for sub in item.user_data:
                if getattr(sub, 'item_type', None) == 0x51:
                    return sub.maximum_length_received
    return None


# ------------------------------------------------------------------------------------------------
# associations built through their real constructors, with the provider module replaced
# ------------------------------------------------------------------------------------------------

class NoSleep(object):
    """`time` as seen by asceprovider (Association.kill polls with sleep)"""
    @staticmethod
    def sleep(dt):
        pass

    @staticmethod
    def time():
        return 0


class DulModule(object):
    """stands for the dulprovider module inside asceprovider: DULServiceProvider(...) hands out scripted providers"""
    scripts = []
    created = []

    @classmethod
    def DULServiceProvider(cls, store_in_file, get_file_cb, dul_socket=None, max_pdu_length=65536):
        script = cls.scripts.pop(0) if cls.scripts else ()
        d = ScriptDul(script)
        d.max_pdu_length = max_pdu_length
        d.ctor_args = (store_in_file, get_file_cb, dul_socket, max_pdu_length)
        cls.created.append(d)
        return d


def patch_provider(*scripts):
    """The next len(scripts) associations created get these receive-scripts, in order."""
    DulModule.scripts = [list(s) for s in scripts]
    DulModule.created = []
    asceprovider.dulprovider = DulModule
    asceprovider.time = NoSleep


class FakeFile(object):
    closed = False

    def close(self):
        self.closed = True

    def flush(self):
        pass


class FakeRequest(object):
    """the accepted client socket as far as socketserver.StreamRequestHandler touches it"""

    def makefile(self, *a, **k):
        return FakeFile()

    def settimeout(self, t):
        pass

    def setsockopt(self, *a):
        pass

    def sendall(self, data):
        pass

    def close(self):
        pass

    def fileno(self):
        return 7


def run_acceptor(ae, max_pdu_length, script):
    """Construct a real AssociationAcceptor (its constructor runs setup/handle/finish, i.e. the whole association).

    Returns (acceptor or None if the hook never saw it, provider stand-in, exception that left handle() or None)."""
    patch_provider(script)
    seen = []
    orig = ae.on_association_request

    def hook(asce, assoc):
        seen.append(asce)
        return orig(asce, assoc)
    ae.on_association_request = hook
    err = None
    try:
        asceprovider.AssociationAcceptor(FakeRequest(), ('peer', 4242), ae, max_pdu_length)
    except exceptions.NetDICOMError as e:
        err = e
    finally:
        ae.on_association_request = orig
    return (seen[0] if seen else None), DulModule.created[0], err
