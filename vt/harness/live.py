"""Live associations: a real AssociationAcceptor (real constructor) over a REAL DULServiceProvider that is stepped in the
calling thread (start() does nothing) on an in-memory socket.  Bytes in, bytes out: everything between the peer's
octets and the application handler is the library's own code (framing, state machine, DIMSE decoder, association,
service class).  Used by C20 (several such associations on one entity) and C15.
"""
import collections

import vt
vt.use_repo()
from vt import api, sim
from vt.harness import assoc as A
from pynetdicom2 import asceprovider, dulprovider, fsm, exceptions


class StepSocket(sim.SimSocket):
    """segments queued by the harness are handed out by recv(); nothing queued and no EOF = the call would block"""

    def __init__(self):
        sim.SimSocket.__init__(self)
        self.inbox = collections.deque()
        self.eof = False

    def readable(self):
        return bool(self.inbox) or self.eof

    # a thread switch right after a read returns is the likeliest pre-emption point of a reader thread: the harness may
    # install a hook that lets ANOTHER association's provider thread run at exactly that point
    io_hook = None
    _in_hook = False

    def _after_io(self):
        hook = StepSocket.io_hook
        if hook is not None and not StepSocket._in_hook:
            StepSocket._in_hook = True
            try:
                hook(self)
            finally:
                StepSocket._in_hook = False

    timeout = None          # socket.settimeout(): a read that finds nothing blocks for that long, then raises socket.timeout
    blocked = 0             # seconds the calling thread spent blocked in reads on this socket

    def recv(self, n, flags=0):
        import socket as _socket
        if flags & _socket.MSG_WAITALL:
            return sim.wait_all(self, n)
        if self.closed:
            raise _socket.error('closed')
        if flags & _socket.MSG_PEEK and self.inbox:
            return self.inbox[0][:n]
        if not self.inbox and not self.eof and self.timeout is not None:
            self.blocked += self.timeout
            raise _socket.timeout('timed out')
        if self.inbox:
            seg = self.inbox.popleft()
            if len(seg) > n:
                self.inbox.appendleft(seg[n:])
                seg = seg[:n]
            self._after_io()
            return seg
        if self.eof:
            return b''
        raise api.Hang('recv() would block for ever')

    def recv_into(self, buffer, nbytes=0, flags=0):
        import socket as _socket
        if self.closed:
            raise _socket.error('closed')
        n = nbytes or len(buffer)
        if self.inbox:
            seg = self.inbox.popleft()
            if len(seg) > n:
                self.inbox.appendleft(seg[n:])
                seg = seg[:n]
            buffer[:len(seg)] = seg
            self._after_io()
            return len(seg)
        if self.eof:
            return 0
        raise api.Hang('recv_into() would block for ever')

    # what socketserver.StreamRequestHandler touches
    def makefile(self, *a, **k):
        return A.FakeFile()

    def settimeout(self, t):
        self.timeout = t

    def gettimeout(self):
        return self.timeout

    def setsockopt(self, *a):
        pass


class EntityLock(object):
    """stand-in for the entity-wide configuration lock (threading.Lock of AEBase): every association of the entity needs it
    (copy_context_def_list), so a thread that WAITS FOR ITS PEER while holding it makes all the others wait for that peer
    too.  Records such waits; acquiring it twice in one thread (it is not re-entrant) would block for ever."""
    installed = []

    def __init__(self):
        self.depth = 0
        self.waits = []
        EntityLock.installed.append(self)

    def acquire(self, blocking=True, timeout=-1):
        if self.depth:
            raise api.Hang('non-reentrant entity lock acquired twice by one thread')
        self.depth += 1
        return True

    def release(self):
        self.depth -= 1

    def locked(self):
        return self.depth > 0

    def __enter__(self):
        return self.acquire()

    def __exit__(self, *a):
        self.release()

    @classmethod
    def note_wait(cls, what):
        for lk in cls.installed:
            if lk.depth:
                lk.waits.append(what)


class _IdleDeque(collections.deque):
    owner = None

    def popleft(self):
        o = self.owner
        o.iterations += 1
        if o.iterations > 80:
            o.over_budget = True
            o.prov.is_killed = True
        elif len(self) == 0 and not o.pending():
            o.prov.is_killed = True
        return collections.deque.popleft(self)


class Pump(object):
    """runs the real provider loop of one provider until an idle iteration"""

    def __init__(self, prov, sock):
        self.prov, self.sock = prov, sock
        ev = _IdleDeque(prov.event)
        ev.owner = self
        prov.event = ev
        self.iterations = 0
        self.over_budget = False
        self.err = None

    def pending(self):
        p = self.prov
        if p.dul_socket is not None and (self.sock.inbox or self.sock.eof):
            return True
        if not p.from_service_user.empty() or p.dimse_gen is not None:
            return True
        return False

    def run(self):
        if self.err is not None:
            return                               # the loop has died: the thread is gone
        LiveDulModule.current = self.sock         # a transport connection opened now (AE-1) is this association's
        self.iterations = 0
        self.prov.is_killed = False
        try:
            self.prov.run()
        except api.Hang as h:
            self.err = 'hang: %s' % (h,)
        except api.HarnessUnsupported:
            raise
        except Exception as e:
            self.err = 'died: %s: %s' % (type(e).__name__, e)

    def state(self):
        return self.prov.state_machine.current_state + 1


class LiveProvider(dulprovider.DULServiceProvider):
    """the real provider; its thread is not started, the loop is run by the pump.  receive() - called by the
    association in the user's thread - lets the provider thread run first, then lets the scripted peer react to what
    was written, until something is there to be received (or nobody has anything left to do)."""
    _vt_pump = None
    _vt_peer = None
    _vt_sock = None

    _vt_stop_calls = 0
    _vt_killed = False

    def start(self):
        pass

    def is_alive(self):
        """the provider thread lives until its loop has been told to end (kill) or has died"""
        return not self._vt_killed and self._vt_pump.err is None

    def receive(self, timeout):
        EntityLock.note_wait('receive(timeout=%r): waiting for the peer' % (timeout,))
        pump = self._vt_pump
        pump.run()
        rounds = 0
        while self.to_service_user.empty() and self._vt_peer is not None and rounds < 30:
            rounds += 1
            if not self._vt_peer(self._vt_sock):
                break
            pump.run()
        return dulprovider.DULServiceProvider.receive(self, timeout)

    def stop(self):
        """Association.kill() polls stop() for up to a second while the provider thread runs: here the thread (and the
        peer) get to run now.  The real kill() polls about a thousand times; a caller that polls without bound waits for a
        state the provider may never reach (silent peer, no ARTIM armed) = a stop request that never completes"""
        self._vt_stop_calls += 1
        if self._vt_stop_calls > 1500:
            raise api.Hang('stop() polled %d times: waiting without bound for the provider to become idle' % self._vt_stop_calls)
        pump = self._vt_pump
        pump.run()
        rounds = 0
        while self._vt_peer is not None and rounds < 30 and self.dul_socket is not None:
            rounds += 1
            if not self._vt_peer(self._vt_sock):
                break
            pump.run()
        return dulprovider.DULServiceProvider.stop(self)

    def kill(self):
        """termination flag, then the loop gets to see it (the real kill() waits for the thread's exit event)"""
        self.is_killed = True
        if self._vt_pump.err is None:
            try:
                dulprovider.DULServiceProvider.run(self)
            except Exception as e:                   # noqa
                self._vt_pump.err = 'died: %s: %s' % (type(e).__name__, e)
        self._vt_killed = True


class PeerBot(object):
    """scripted peer: react(new_pdus_written_by_the_library) -> list of byte segments to deliver (b'' = close)"""

    def __init__(self, react):
        self.react = react
        self.seen = 0

    def __call__(self, sock):
        new = sock.sent[self.seen:]
        self.seen = len(sock.sent)
        segs = self.react(new)
        for seg in segs or []:
            if seg == b'':
                sock.eof = True
            else:
                sock.inbox.append(seg)
        return bool(segs)


class LiveDulModule(object):
    """stands for the `dulprovider` module inside asceprovider: DULServiceProvider(...) builds a REAL provider (its
    thread is not started) on the StepSocket the harness prepared for the association that is being constructed"""
    next_socket = None
    next_peer = None
    current = None
    queue = []            # (socket, peer) pairs for associations that the library constructs itself, in order
    created = []
    Timer = dulprovider.Timer
    PDU_TYPES = dulprovider.PDU_TYPES

    @classmethod
    def DULServiceProvider(cls, store_in_file, get_file_cb, dul_socket=None, max_pdu_length=65536, **kw):
        peer = cls.next_peer
        sock = cls.next_socket
        if cls.queue:
            sock, peer = cls.queue.pop(0)
            cls.next_socket = sock               # AE-1 "connects" this one
        with sim._no_tracing():
            prov = LiveProvider(store_in_file, get_file_cb, sock if dul_socket is not None else None, max_pdu_length)
            prov.to_service_user = sim.SimQueue(getattr(prov.to_service_user, 'maxsize', 0))
            prov.from_service_user = sim.SimQueue(getattr(prov.from_service_user, 'maxsize', 0))
        pump = Pump(prov, sock)
        prov._vt_pump = pump
        prov._vt_sock = sock
        prov._vt_peer = peer
        cls.created.append(prov)
        return prov


class _SocketServerStub(object):
    """asceprovider.socketserver as seen by AssociationAcceptor.__init__: the base-class constructor only records its
    arguments (the real one runs setup/handle/finish, i.e. the whole association, inside the constructor)"""
    class StreamRequestHandler(object):
        def __init__(self, request, client_address, server):
            self.request, self.client_address, self.server = request, client_address, server


def install(clock):
    """module globals seen by the providers created from now on (select, clock, socket factory) and by asceprovider"""
    dulprovider.select = sim.SimSelect()
    dulprovider.time = clock
    sockmod = sim.SocketModule()
    sockmod.socket = lambda *a: LiveDulModule.current or LiveDulModule.next_socket   # AE-1 "connects" the prepared socket
    fsm.socket = sockmod
    asceprovider.dulprovider = LiveDulModule
    asceprovider.time = A.NoSleep
    asceprovider.socketserver = _SocketServerStub
    StepSocket.io_hook = None
    EntityLock.installed = []
    LiveDulModule.created = []
    LiveDulModule.queue = []
    LiveDulModule.next_peer = None


class LiveAcceptor(object):
    """one acceptor-side association on entity `ae`: real AssociationAcceptor + real stepped provider"""

    def __init__(self, ae, name, max_pdu_length=16384):
        self.sock = StepSocket()
        LiveDulModule.next_socket = self.sock
        self.acc = asceprovider.AssociationAcceptor(self.sock, (name, 1), ae, max_pdu_length)
        self.prov = self.acc.dul
        self.pump = self.prov._vt_pump
        self.n_sent = 0
        self.errors = []
        self.pump.run()                          # transport connection indication (AE-5)

    def deliver(self, raw):
        """octets arrive from the peer; the provider thread gets to run"""
        self.sock.inbox.append(raw)
        self.pump.run()

    def peer_closes(self):
        self.sock.eof = True
        self.pump.run()

    def establish(self):
        try:
            self.acc._establish()
        except exceptions.NetDICOMError as e:
            self.errors.append(type(e).__name__)
        self.pump.run()

    def serve_one(self):
        """one iteration of the acceptor's message loop, then the provider thread flushes what was queued"""
        try:
            self.acc._loop()
        except exceptions.DCMTimeoutError:
            pass                                 # nothing more to read right now
        except exceptions.AssociationAbortedError:
            self.errors.append('aborted')
        except exceptions.AssociationReleasedError:
            self.errors.append('released')
        except exceptions.ClassNotSupportedError:
            self.errors.append('class not supported')
        self.pump.run()

    def wire(self):
        """everything the provider has written to the peer so far, PDU by PDU"""
        return list(self.sock.sent)


class LiveRequester(object):
    """one requester-side association: real AssociationRequester over a real stepped provider, facing a scripted peer"""

    def __init__(self, ae, remote_ae, react, max_pdu_length=None):
        self.sock = StepSocket()
        self.peer = PeerBot(react)
        LiveDulModule.next_socket = self.sock
        LiveDulModule.next_peer = self.peer
        try:
            self.asce = asceprovider.AssociationRequester(ae, max_pdu_length or ae.max_pdu_length, remote_ae)
        finally:
            LiveDulModule.next_peer = None
        self.prov = self.asce.dul
        self.pump = self.prov._vt_pump

    def wire(self):
        return list(self.sock.sent)
