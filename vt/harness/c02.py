"""C02 -- wire format matches the PS3.8 / PS3.7 PDU layouts (lengths, order, widths)."""
import warnings
import vt
vt.use_repo()
warnings.simplefilter('ignore')
from vt import api
from vt.api import cond, deep, fam, tier, pick
from vt.refs import ps38
from vt.harness.pdus import (pdu, udi, mkstream, sub_ok, build_sub, sample_sub, UIDCH, NAMECH, APPCH,
                             KNOWN_SUB_TYPES)
from vt.harness import c01 as _c01          # installs the UID model under the solver (replays use pydicom's UID)

ASSUMPTIONS = [
    'oracle = vt/refs/ps38.py: an independent, strictly length-driven parser and encoder written from PS3.8 9.3 and '
    'PS3.7 Annex D (every length field delimits exactly the bytes it governs); it is executed symbolically in the same '
    'path as the library code',
    'AE titles: leading/trailing spaces are padding (PS3.5 AE); the reference parser also tolerates NUL padding, the '
    'emitted padding is checked separately to be spaces',
    'validity predicate and bounds of the structured values as in C01',
]

APP = '1.2.840.10008.3.1.1.1'
TS = ['1.2.840.10008.1.2', '1.2.840.10008.1.2.1', '1.2.840.10008.1.2.2']


# ------------------------------------------------------------------------------------------------
# library objects -> reference values
# ------------------------------------------------------------------------------------------------

def sub_to_ref(s):
    t = type(s)
    if t is udi.MaximumLengthSubItem:
        return ('maxlen', s.reserved, s.maximum_length_received) if s.item_length == 4 else ('bad',)
    if t is udi.ImplementationClassUIDSubItem:
        return ('impl_uid', s.reserved, str(s.implementation_class_uid))
    if t is udi.ImplementationVersionNameSubItem:
        return ('impl_ver', s.reserved, s.implementation_version_name)
    if t is udi.AsynchronousOperationsWindowSubItem:
        return ('async', s.reserved, s.max_num_ops_invoked, s.max_num_ops_performed) if s.item_length == 4 else ('bad',)
    if t is udi.ScpScuRoleSelectionSubItem:
        return ('role', s.reserved, str(s.sop_class_uid), s.scu_role, s.scp_role)
    if t is udi.SOPClassExtendedNegotiationSubItem:
        return ('ext', s.reserved, str(s.sop_class_uid), s.app_info)
    if t is udi.UserIdentityNegotiationSubItem:
        return ('user_id', s.reserved, s.user_identity_type, s.positive_response_req, s.primary_field,
                s.secondary_field)
    if t is udi.UserIdentityNegotiationSubItemAc:
        return ('user_id_ac', s.reserved, s.server_response)
    if t is udi.GenericUserDataSubItem:
        return ('generic', s.item_type, s.reserved, s.user_data)
    return ('bad',)


def item_to_ref(it):
    t = type(it)
    if t is pdu.ApplicationContextItem:
        return ('app', it.reserved, it.context_name)
    if t is pdu.PresentationContextItemRQ:
        subs = [('abs', it.abs_sub_item.reserved, str(it.abs_sub_item.name))]
        subs += [('ts', x.reserved, str(x.name)) for x in it.ts_sub_items]
        return ('pc_rq', it.reserved1, it.context_id, (it.reserved2, it.reserved3, it.reserved4), subs)
    if t is pdu.PresentationContextItemAC:
        return ('pc_ac', it.reserved1, it.context_id, it.reserved2, it.result_reason, it.reserved3,
                [('ts', it.ts_sub_item.reserved, str(it.ts_sub_item.name))])
    if t is pdu.UserInformationItem:
        return ('user', it.reserved, [sub_to_ref(s) for s in it.user_data])
    return ('bad',)


def pdu_to_ref(p):
    t = p.pdu_type
    if t in (1, 2):
        r3 = b''.join(w.to_bytes(4, 'big') for w in p.reserved3)
        return {'type': t, 'protocol_version': p.protocol_version, 'called': p.called_ae_title,
                'calling': p.calling_ae_title, 'reserved': (p.reserved1, p.reserved2, r3),
                'items': [item_to_ref(i) for i in p.variable_items]}
    if t == 3:
        return {'type': 3, 'reserved': (p.reserved1, p.reserved2), 'result': p.result, 'source': p.source,
                'reason': p.reason_diag}
    if t == 4:
        return {'type': 4, 'reserved': p.reserved, 'pdvs': [(v.context_id, v.data_value) for v in p.data_value_items]}
    if t in (5, 6):
        return {'type': t, 'reserved': (p.reserved1, p.reserved2)}
    if t == 7:
        return {'type': 7, 'reserved': (p.reserved1, p.reserved2, p.reserved3), 'source': p.source,
                'reason': p.reason_diag}
    return {'type': 'bad'}


def emits(p):
    """direction A: the library's bytes, read strictly by the standard's layouts, give back exactly the fields"""
    raw = p.encode()
    try:
        got = ps38.parse(raw)
    except ps38.RefError:
        return False
    return got == pdu_to_ref(p) and len(raw) == p.total_length()


def accepts(cls, v):
    """direction B: a standard-conformant encoding of v decodes to the corresponding field values"""
    raw = ps38.encode(v)
    p = cls.decode(raw)
    return pdu_to_ref(p) == v


def rq_with(subs, pcs=()):
    return pdu.AAssociateRqPDU('CALLED', 'CALLING', [pdu.ApplicationContextItem(APP)] + list(pcs)
                               + [pdu.UserInformationItem(list(subs))])


# ------------------------------------------------------------------------------------------------
# direction A
# ------------------------------------------------------------------------------------------------

@cond(bounds='fixed-layout PDUs emitted by the library (A-ASSOCIATE-RJ, A-RELEASE-RQ/RP, A-ABORT): every field incl. '
             'reserved ones symbolic over its full width', family={'kind': [3, 5, 6, 7]}, timeout=120)
def emit_fixed(a: int, b: int, c: int, d: int, e: int) -> bool:
    """
    pre: 0 <= a <= 255 and 0 <= b <= 255 and 0 <= c <= 255 and 0 <= d <= 255 and 0 <= e <= 0xFFFFFFFF
    post: _
    """
    k = fam('kind')
    if k == 3:
        p = pdu.AAssociateRjPDU(a, b, c, d, e & 255)
    elif k == 7:
        p = pdu.AAbortPDU(a, b, c, d, e & 255)
    else:
        p = (pdu.AReleaseRqPDU if k == 5 else pdu.AReleaseRpPDU)(a, e)
    ok = emits(p)
    deep(ok and a == 7 and e == 0xFFFFFFFF)
    return ok


@cond(bounds='A-ASSOCIATE-RQ/AC header emitted by the library: protocol version, reserved fields symbolic over their '
             'width, called / calling AE-title length symbolic 0..16 (one at a time); the 16-byte title fields must be '
             'padded with spaces', family={'ac': [0, 1], 'which': [0, 1]}, timeout=120)
def emit_header(pv: int, r1: int, r2: int, w0: int, w7: int, n: int) -> bool:
    """
    pre: 0 <= pv <= 65535 and 0 <= r1 <= 255 and 0 <= r2 <= 65535 and 0 <= w0 <= 0xFFFFFFFF and 0 <= w7 <= 0xFFFFFFFF
    pre: 0 <= n <= 16
    post: _
    """
    n = pick(n, 0, 16)
    cls = pdu.AAssociateAcPDU if fam('ac') else pdu.AAssociateRqPDU
    n1, n2 = (n, 3) if fam('which') == 0 else (16, n)
    called, calling = NAMECH[:n1], 'Calling_AE-Title'[:n2]
    p = cls(called, calling, [pdu.ApplicationContextItem(APP)], pv, r1, r2, (w0, 0, 0, 0, 0, 0, 0, w7))
    raw = p.encode()
    ok = emits(p)
    # PS3.8 9.3.2: AE titles are 16 characters, padded with trailing spaces
    ok = ok and raw[10:26] == called.encode('ascii') + b' ' * (16 - n1)
    ok = ok and raw[26:42] == calling.encode('ascii') + b' ' * (16 - n2)
    deep(ok and n == 9)
    return ok


@cond(bounds='each of the 9 user-information sub-item kinds emitted inside an A-ASSOCIATE-RQ between two other sub-items: '
             'integer fields over their full width, text / data lengths symbolic over 0..64 / 0..16 / 0..32 (one '
             'length at a time)',
      family=lambda t: [dict(kind=k, lenvar=v) for k in range(9) for v in ('n', 'm')
                        if not (v == 'm' and k not in (5, 6, 8))], timeout=180)
def emit_sub(a: int, b: int, r: int, n: int, m: int) -> bool:
    """
    pre: sub_ok(fam('kind'), a, b, r, n, m, 64 if fam('lenvar') == 'n' else 2, 32 if fam('lenvar') == 'm' else 2)
    post: _
    """
    s = build_sub(fam('kind'), a, b, r, n, m)
    p = rq_with([udi.MaximumLengthSubItem(16384), s, udi.ImplementationVersionNameSubItem('V1')])
    ok = emits(p)
    deep(ok and (n > 2 or m > 2 or a > 2))
    return ok


@cond(bounds='presentation-context items emitted by the library: RQ with 0..3 transfer syntaxes (one instance per count), context '
             'id and reserved bytes symbolic, abstract-syntax length symbolic 0..64; AC with every result 0..255; '
             'followed by a user-information item', family={'k': [0, 1, 2, 3]}, timeout=180)
def emit_pc(cid: int, r1: int, r2: int, res: int, n: int) -> bool:
    """
    pre: 0 <= cid <= 255 and 0 <= r1 <= 255 and 0 <= r2 <= 255 and 0 <= res <= 255 and 0 <= n <= 64
    post: _
    """
    n, k = pick(n, 0, 64), fam('k')
    rq = pdu.PresentationContextItemRQ(cid, pdu.AbstractSyntaxSubItem(UIDCH[:n], r2),
                                       [pdu.TransferSyntaxSubItem(t, r1) for t in TS[:k]], r1, r2, r1, r2)
    p = rq_with([udi.MaximumLengthSubItem(1)], [rq])
    ok = emits(p)
    ac = pdu.PresentationContextItemAC(cid, res, pdu.TransferSyntaxSubItem(UIDCH[:n], r2), r1, r2, r1)
    q = pdu.AAssociateAcPDU('A', 'B', [pdu.ApplicationContextItem(APP), ac,
                                       pdu.UserInformationItem([udi.MaximumLengthSubItem(2)])])
    ok = ok and emits(q)
    deep(ok and n == 64)
    return ok


@cond(bounds='P-DATA-TF emitted by the library: 1..3 PDVs (symbolic), context ids symbolic, first payload symbolic bytes '
             '<= 3, others symbolic length 0..2', timeout=180)
def emit_pdata(k: int, cid: int, r: int, d0: bytes, n1: int) -> bool:
    """
    pre: 1 <= k <= 3 and 0 <= cid <= 255 and 0 <= r <= 255 and len(d0) <= 3 and 0 <= n1 <= 2
    post: _
    """
    k, n1 = pick(k, 1, 3), pick(n1, 0, 2)
    pdvs = [pdu.PresentationDataValueItem(cid, d0), pdu.PresentationDataValueItem(255 - cid, APPCH[:n1]),
            pdu.PresentationDataValueItem(1, APPCH[:2])][:k]
    ok = emits(pdu.PDataTfPDU(pdvs, r))
    deep(ok and k == 3 and len(d0) == 2)
    return ok


# ------------------------------------------------------------------------------------------------
# direction B
# ------------------------------------------------------------------------------------------------

def ref_sub(kind, c):
    """reference value of a sub-item of `kind` with one symbolic integer c"""
    return sub_to_ref(sample_sub(kind, c))


@cond(bounds='reference-encoded A-ASSOCIATE-RQ whose user-information item carries three sub-items in any order: kinds of '
             'the first two chosen by symbolic selectors over all 9 kinds (all 81 ordered pairs, incl. orders the '
             'library never produces: Maximum Length not first), third = kind given per instance; one symbolic integer '
             'in each', family={'third': [0, 4, 6, 8]}, timeout=300)
def accept_sub_orders(k1: int, k2: int, c: int) -> bool:
    """
    pre: 0 <= k1 <= 8 and 0 <= k2 <= 8 and 0 <= c <= 0xFFFFFFFF
    post: _
    """
    k1, k2 = pick(k1, 0, 8), pick(k2, 0, 8)
    subs = [ref_sub(k1, c), ref_sub(k2, c), ref_sub(fam('third'), c)]
    v = {'type': 1, 'protocol_version': 1, 'called': 'CALLED', 'calling': 'CALLING', 'reserved': (0, 0, b'\0' * 32),
         'items': [('app', 0, APP), ('user', 0, subs)]}
    ok = accepts(pdu.AAssociateRqPDU, v)
    deep(ok and k1 == 5 and k2 == 0)
    return ok


@cond(bounds='reference-encoded A-ASSOCIATE-RQ with a sub-item of unknown type (symbolic type byte outside the 8 known '
             'types, not 0) of symbolic length 0..8 between known sub-items; must be kept as a generic sub-item and not '
             'disturb its neighbours', timeout=180)
def accept_unknown_sub(t: int, r: int, n: int, c: int) -> bool:
    """
    pre: 1 <= t <= 255 and t not in KNOWN_SUB_TYPES and 0 <= r <= 255 and 0 <= n <= 8 and 0 <= c <= 0xFFFFFFFF
    post: _
    """
    n = pick(n, 0, 8)
    subs = [('maxlen', 0, c), ('generic', t, r, APPCH[:n]), ('impl_uid', 0, '1.2.3')]
    v = {'type': 1, 'protocol_version': 1, 'called': 'CALLED', 'calling': 'CALLING', 'reserved': (0, 0, b'\0' * 32),
         'items': [('app', 0, APP), ('user', 0, subs)]}
    ok = accepts(pdu.AAssociateRqPDU, v)
    deep(ok and n == 8 and t == 0x57)
    return ok


@cond(bounds='reference-encoded A-ASSOCIATE-RQ / AC: AE titles of symbolic length 0..16 (one at a time) padded with spaces, protocol '
             'version and all reserved fields non-zero (symbolic), 0..3 transfer syntaxes per context (symbolic), AC '
             'result symbolic', family={'ac': [0, 1], 'which': [0, 1]}, timeout=240)
def accept_assoc(n: int, pv: int, r1: int, r2: int, k: int, cid: int, res: int) -> bool:
    """
    pre: 0 <= n <= 16 and 0 <= pv <= 65535 and 0 <= r1 <= 255 and 0 <= r2 <= 65535
    pre: 0 <= k <= 3 and 0 <= cid <= 255 and 0 <= res <= 255 and (fam('ac') == 0 or k == 0)
    post: _
    """
    n, k = pick(n, 0, 16), pick(k, 0, 3)
    n1, n2 = (n, 16) if fam('which') == 0 else (5, n)
    rb = r2.to_bytes(2, 'big') + bytes(range(1, 31))          # 8 reserved words: first 2 bytes symbolic, rest non-zero
    if fam('ac'):
        pcs = [('pc_ac', r1, cid, r1, res, r1, [('ts', r1, TS[0] if res == 0 else '')])]
    else:
        pcs = [('pc_rq', r1, cid, (r1, r1, r1), [('abs', r1, UIDCH[:20])] + [('ts', r1, t) for t in TS[:k]])]
    v = {'type': 2 if fam('ac') else 1, 'protocol_version': pv, 'called': NAMECH[:n1],
         'calling': 'Calling_AE-Title'[:n2], 'reserved': (r1, r2, rb),
         'items': [('app', r1, APP)] + pcs + [('user', r1, [('maxlen', r1, 16384)])]}
    ok = accepts(pdu.AAssociateAcPDU if fam('ac') else pdu.AAssociateRqPDU, v)
    deep(ok and n == 7 and r1 == 255)
    return ok


@cond(bounds='reference-encoded fixed PDUs and P-DATA-TF: all fields incl. reserved symbolic; P-DATA with 1..3 PDVs '
             '(symbolic) of symbolic small payloads', family={'kind': [3, 4, 5, 6, 7]}, timeout=180)
def accept_fixed(a: int, b: int, c: int, d: int, e: int, k: int, data: bytes) -> bool:
    """
    pre: 0 <= a <= 255 and 0 <= b <= 255 and 0 <= c <= 255 and 0 <= d <= 255 and 0 <= e <= 0xFFFFFFFF
    pre: 1 <= k <= 3 and len(data) <= 3
    post: _
    """
    kind = fam('kind')
    if kind == 3:
        v, cls = {'type': 3, 'reserved': (a, b), 'result': c, 'source': d, 'reason': e & 255}, pdu.AAssociateRjPDU
    elif kind == 7:
        v, cls = {'type': 7, 'reserved': (a, b, c), 'source': d, 'reason': e & 255}, pdu.AAbortPDU
    elif kind in (5, 6):
        v, cls = {'type': kind, 'reserved': (a, e)}, (pdu.AReleaseRqPDU if kind == 5 else pdu.AReleaseRpPDU)
    else:
        k = pick(k, 1, 3)
        v = {'type': 4, 'reserved': a, 'pdvs': [(b, data), (c, APPCH[:2]), (d, b'')][:k]}
        cls = pdu.PDataTfPDU
    ok = accepts(cls, v)
    deep(ok and a == 200)
    return ok


def explain(cname, args, famv):
    return 'reference codec vt/refs/ps38.py disagrees with the library; replay prints nothing more (see condition source)'


def _utf8_ok(s):
    """text that has a UTF-8 encoding (no lone surrogates)"""
    for ch in s:
        if 0xD800 <= ord(ch) <= 0xDFFF:
            return False
    return True


@cond(bounds='User Identity sub-item (PS3.7 D.3.3.7: fields are UTF-8) emitted inside an A-ASSOCIATE-RQ between two other '
             'sub-items: primary and secondary field with symbolic CONTENT of 0..2 characters each over the whole Unicode '
             'range (1-4 byte encodings; lone surrogates excluded; secondary 0..1), identity type / response flag symbolic bytes; the '
             'enclosing item, user-information and PDU length fields must count bytes, not characters',
      timeout=240, thorough_timeout=900)
def emit_user_identity_text(p: str, q: str, a: int, b: int) -> bool:
    """
    pre: len(p) <= 2 and len(q) <= 1 and _utf8_ok(p) and _utf8_ok(q) and 0 <= a <= 255 and 0 <= b <= 255
    post: _
    """
    s = udi.UserIdentityNegotiationSubItem(p, q, user_identity_type=a, positive_response_req=b)
    x = rq_with([udi.MaximumLengthSubItem(16384), s, udi.ImplementationVersionNameSubItem('V1')])
    ok = emits(x)
    deep(ok and len(p) == 2 and ord(p[0]) > 0x7FF and len(q) == 1 and ord(q[0]) > 127)
    return ok


# ------------------------------------------------------------------------------------------------
# direction A on objects that were modified after construction (the library itself does this: the acceptor re-uses the
# received user-information item and assigns its own maximum length; services re-use message / PDU objects)
# ------------------------------------------------------------------------------------------------

def _assign_public(dst, src):
    """give dst every public attribute value of src (plain attribute assignment, as library and user code do)"""
    for k, v in list(vars(src).items()):
        if not k.startswith('_'):
            setattr(dst, k, v)


@cond(bounds='fixed-layout PDUs built with one set of field values, then EVERY public attribute re-assigned to a second, '
             'symbolic set (full width) before encoding: the bytes must describe the current field values',
      family={'kind': [3, 5, 6, 7]}, timeout=120)
def emit_reassigned_fixed(a: int, b: int, c: int, d: int, e: int) -> bool:
    """
    pre: 0 <= a <= 255 and 0 <= b <= 255 and 0 <= c <= 255 and 0 <= d <= 255 and 0 <= e <= 0xFFFFFFFF
    post: _
    """
    k = fam('kind')
    if k == 3:
        p, q = pdu.AAssociateRjPDU(1, 2, 3), pdu.AAssociateRjPDU(a, b, c, d, e & 255)
    elif k == 7:
        p, q = pdu.AAbortPDU(2, 6), pdu.AAbortPDU(a, b, c, d, e & 255)
    else:
        cls = pdu.AReleaseRqPDU if k == 5 else pdu.AReleaseRpPDU
        p, q = cls(), cls(a, e)
    p.encode()
    _assign_public(p, q)
    ok = emits(p) and pdu_to_ref(p) == pdu_to_ref(q)
    deep(ok and a == 9 and e == 0x01020304)
    return ok


@cond(bounds='each of the 9 user-information sub-item kinds placed in an A-ASSOCIATE-RQ (already encoded once), then every '
             'public attribute of the sub-item re-assigned to symbolic values (integers full width, lengths symbolic, one '
             'at a time) and the PDU encoded again',
      family=lambda t: [dict(kind=k, lenvar=v) for k in range(9) for v in ('n', 'm')
                        if not (v == 'm' and k not in (5, 6, 8))], timeout=180)
def emit_reassigned_sub(a: int, b: int, r: int, n: int, m: int) -> bool:
    """
    pre: sub_ok(fam('kind'), a, b, r, n, m, 64 if fam('lenvar') == 'n' else 2, 32 if fam('lenvar') == 'm' else 2)
    post: _
    """
    kind = fam('kind')
    s = sample_sub(kind, 5)
    p = rq_with([udi.MaximumLengthSubItem(16384), s, udi.ImplementationVersionNameSubItem('V1')])
    p.encode()
    t = build_sub(kind, a, b, r, n, m)
    _assign_public(s, t)
    ok = emits(p)
    if kind != 6:                         # the user-identity fields are read-only properties
        ok = ok and sub_to_ref(s) == sub_to_ref(t)
    deep(ok and (n > 2 or m > 2 or a > 2))
    return ok


@cond(bounds='A-ASSOCIATE-RQ / AC and P-DATA-TF modified after construction and a first encode: AE titles (symbolic length '
             '0..16), protocol version, item list extended by a presentation context, user-information list extended by '
             'a sub-item, context id / result of a presentation-context item, PDV list extended and PDV payload / '
             'context id re-assigned (symbolic bytes <= 3)', family={'ac': [0, 1]}, timeout=240)
def emit_reassigned_assoc(n: int, pv: int, cid: int, res: int, c: int, d: bytes) -> bool:
    """
    pre: 0 <= n <= 16 and 0 <= pv <= 65535 and 0 <= cid <= 255 and 0 <= res <= 255 and 0 <= c <= 0xFFFFFFFF
    pre: len(d) <= 3
    post: _
    """
    n = pick(n, 0, 16)
    ml = udi.MaximumLengthSubItem(16384)
    ui = pdu.UserInformationItem([ml])
    if fam('ac'):
        pc = pdu.PresentationContextItemAC(1, 0, pdu.TransferSyntaxSubItem(TS[0]))
        p = pdu.AAssociateAcPDU('CALLED', 'CALLING', [pdu.ApplicationContextItem(APP), pc, ui])
    else:
        pc = pdu.PresentationContextItemRQ(1, pdu.AbstractSyntaxSubItem(UIDCH[:20]), [pdu.TransferSyntaxSubItem(TS[0])])
        p = pdu.AAssociateRqPDU('CALLED', 'CALLING', [pdu.ApplicationContextItem(APP), pc, ui])
    first = p.encode()
    ok = len(first) == p.total_length()
    # what AssociationAcceptor.accept does to the received item, and more of the same kind
    ml.maximum_length_received = c
    ui.user_data.append(udi.ImplementationVersionNameSubItem('V2'))
    pc.context_id = cid
    if fam('ac'):
        pc.result_reason = res
    else:
        pc.ts_sub_items.append(pdu.TransferSyntaxSubItem(TS[1]))
    p.called_ae_title = NAMECH[:n]
    p.calling_ae_title = 'Calling_AE-Title'[:16 - n]
    p.protocol_version = pv
    ok = ok and emits(p)
    v = pdu.PresentationDataValueItem(1, b'\x03\x01')
    t = pdu.PDataTfPDU([v])
    t.encode()
    v.context_id = cid
    v.data_value = d
    t.data_value_items.append(pdu.PresentationDataValueItem(res, APPCH[:2]))
    ok = ok and emits(t)
    deep(ok and n == 5 and c == 0 and len(d) == 3)
    return ok
