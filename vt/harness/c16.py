"""C16 -- C-FIND returns exactly the matches the SCP produced, in order, then stops (sopclass.py, __init__.py)."""
import contextlib
import warnings
import vt
vt.use_repo()
warnings.simplefilter('ignore')
import pydicom
from vt import api
from vt.api import cond, deep, fam, tier, pick
from vt.harness.svc import RecAssoc
from pynetdicom2 import sopclass, dimsemessages as dm, statuses, exceptions, asceprovider, dsutils, fsm
import pynetdicom2

ASSUMPTIONS = [
    'both roles run in one thread: the user callable sends its request into a recording association; when it first '
    'waits for a response the request PDUs are reassembled by the real DIMSEDecoder and handed to the provider callable '
    'on a second recording association, whose P-DATA-TF PDUs are reassembled again and replayed to the user',
    'schedule: the provider thread drains a queued message generator either at once or only after the provider callable '
    'has returned (symbolic boolean) - both are schedules the real two-thread implementation allows',
    'match data sets come from a small pool (concrete elements); application handler yields only pending statuses',
]

IMPLICIT = pydicom.uid.ImplicitVRLittleEndian
ROOT = str(sopclass.PATIENT_ROOT_FIND_SOP_CLASS)
MWL = str(sopclass.MODALITY_WORK_LIST_INFORMATION_FIND_SOP_CLASS)


def ctx_of(cid, sop):
    return asceprovider.PContextDef(cid, pydicom.uid.UID(sop), IMPLICIT)


def pool(i):
    ds = pydicom.Dataset()
    ds.PatientName = ['DOE^JOHN', 'ROE^JANE', 'X', 'LONGER^NAME^WITH^MANY^COMPONENTS'][i % 4]
    ds.PatientID = 'ID-%d' % i
    return ds


def query():
    ds = pydicom.Dataset()
    ds.PatientName = 'DOE*'
    ds.QueryRetrieveLevel = 'PATIENT'
    return ds


def reassemble(pdu_lists):
    """P-DATA-TF PDUs of successive sends -> [(message, context id)] through the real DIMSEDecoder."""
    out = []
    dec = None
    for pdus in pdu_lists:
        for p in pdus:
            if dec is None:
                dec = fsm.DIMSEDecoder({}, set(), None)
            dec.process(p)
            if not dec.receiving:
                out.append((dec.msg, dec.pc_id))
                dec = None
    return out, dec is None


class ProviderAE(object):
    def __init__(self, matches):
        self.matches = matches
        self.seen = []

    def on_receive_find(self, ctx, ds):
        self.seen.append(ds)
        return iter(self.matches)


class UserAssoc(RecAssoc):
    """the user side: the first receive() runs the provider on what has been sent"""

    def __init__(self, ae, provider_ae, scp, cid, sop, maxlen, lazy):
        RecAssoc.__init__(self, ae, maxlen)
        self.provider_ae = provider_ae
        self.scp = scp
        self.cid = cid
        self.sop = sop
        self.lazy = lazy
        self.ran = False
        self.complete = True

    def receive(self):
        if not self.ran:
            self.ran = True
            self.dul.drain()
            msgs, whole = reassemble(self.dul.pdus)
            passoc = RecAssoc(self.provider_ae, self.max_pdu_length, lazy=self.lazy)
            for m, pc in msgs:
                self.scp(passoc, ctx_of(pc, self.sop), m)
            passoc.dul.drain()
            back, whole2 = reassemble(passoc.dul.pdus)
            self.complete = whole and whole2
            self.script.extend(back)
        return RecAssoc.receive(self)


PEND = (0xFF00, 0xFF01)


@cond(bounds='C-FIND user against C-FIND provider (query/retrieve and modality-worklist variants per instance): k = 0..3 '
             'matches (symbolic) with pending status FF00 / FF01 per match (symbolic), message id symbolic 0..65535 in the '
             'first instance and one of {0, 255, 256, 65535} in the others (all-selector instances run outside the tracer), '
             'maximum PDU length 16384, 40 (multi-fragment responses) or exactly one identifier + 6 (one instance each), provider-thread schedule eager / '
             'lagging (symbolic)', family={'mwl': [0, 1], 'msel': [0, 1, 2]}, timeout=600)
def find_end_to_end(k: int, w0: bool, w1: bool, w2: bool, mid: int, lazy: bool) -> bool:
    """
    pre: 0 <= k <= 3 and 0 <= mid <= 65535 and (_traced() or mid <= 3)
    post: _
    """
    from vt import sim
    k = pick(k, 0, 3)
    if _traced():
        ok = _find_e2e(k, (w0, w1, w2), mid, lazy, fam('msel'), fam('mwl'))
    else:
        # every input a selector: concrete from here on, outside the tracer (message id from 4 boundary values)
        ws = tuple(bool(pick(int(w), 0, 1)) for w in (w0, w1, w2))
        lz = bool(pick(int(lazy), 0, 1))
        m = (0, 255, 256, 65535)[pick(mid, 0, 3)]
        with sim._no_tracing():
            ok = _find_e2e(k, ws, m, lz, fam('msel'), fam('mwl'))
    deep(ok and k == 3 and lazy and w1)
    return ok


def _traced():
    """one instance keeps the message id a symbolic 16-bit value through request, provider and responses"""
    return fam('msel') == 0 and fam('mwl') == 0


def _find_e2e(k, ws, mid, lazy, msel, mwl):
    # maximum PDU length: large, small (many fragments), or such that the first match is exactly one full fragment
    maxlen = (16384, 40, len(dsutils.encode(pool(0), True, True)) + 6)[msel]
    sop = MWL if mwl else ROOT
    scp = sopclass.modality_work_list_scp if mwl else sopclass.qr_find_scp
    scu = sopclass.modality_work_list_scu if mwl else sopclass.qr_find_scu
    pend = [PEND[1] if w else PEND[0] for w in ws][:k]
    matches = [(pool(i), statuses.Status(p, dm.CFindRSPMessage)) for i, p in enumerate(pend)]
    pae = ProviderAE(matches)
    ua = UserAssoc(None, pae, scp, 3, sop, maxlen, lazy)
    got = []
    n = 0
    for a, b in scu(ua, ctx_of(3, sop), query(), mid):
        got.append((a, b))
        n += 1
        if n > 6:
            break
    ok = ua.complete and len(got) == k + 1
    if ok:
        for i in range(k):
            ds, st = got[i]
            ok = ok and ds is not None and dsutils.encode(ds, True, True) == dsutils.encode(pool(i), True, True)
            ok = ok and int(st) == pend[i] and st.is_pending
        ds, st = got[k]
        ok = ok and ds is None and int(st) == 0 and st.is_success and not st.is_pending
    # the query reached the provider's handler unchanged, once
    ok = ok and len(pae.seen) == 1 and dsutils.encode(pae.seen[0], True, True) == dsutils.encode(query(), True, True)
    ok = ok and len(ua.script) == 0
    return ok


def _rsp(status, ds, mid):
    m = dm.CFindRSPMessage()
    m.message_id_being_responded_to = mid
    m.sop_class_uid = ROOT
    m.status = status
    if ds is not None:
        m.data_set = dsutils.encode(ds, True, True)
    return m


@cond(bounds='C-FIND user alone against scripted responses: k = 0..3 pending responses (FF00/FF01 symbolic), then a '
             'final status chosen by symbolic index from {success, A700, C001, FE00 cancel, 0122}, followed by further '
             '(stray) responses that must not be consumed', timeout=400)
def find_user_stops(k: int, w0: bool, w1: bool, w2: bool, fin: int) -> bool:
    """
    pre: 0 <= k <= 3 and 0 <= fin <= 4
    post: _
    """
    from vt import sim
    k, fin = pick(k, 0, 3), pick(fin, 0, 4)
    ws = tuple(bool(pick(int(w), 0, 1)) for w in (w0, w1, w2))
    with sim._no_tracing():               # every input is a selector: concrete from here on
        ok = _find_user_stops(k, ws, fin)
    deep(ok and k == 2 and fin == 3)
    return ok


def _find_user_stops(k, ws, fin):
    final = (0x0000, 0xA700, 0xC001, 0xFE00, 0x0122)[fin]
    pend = [PEND[1] if w else PEND[0] for w in ws][:k]
    script = [(_rsp(p, pool(i), 9), 3) for i, p in enumerate(pend)]
    script.append((_rsp(final, None, 9), 3))
    script.append((_rsp(0xFF00, pool(7), 9), 3))          # must stay unread
    ua = RecAssoc(None, script=script)
    got = list(sopclass.qr_find_scu(ua, ctx_of(3, ROOT), query(), 9))
    ok = len(got) == k + 1 and len(ua.script) == 1
    if ok:
        for i in range(k):
            ok = ok and int(got[i][1]) == pend[i] and got[i][0] is not None \
                and dsutils.encode(got[i][0], True, True) == dsutils.encode(pool(i), True, True)
        ok = ok and got[k][0] is None and int(got[k][1]) == final and not got[k][1].is_pending
    sent = ua.sent()
    ok = ok and len(sent) == 1 and sent[0].command_field == 0x0020 and sent[0].message_id == 9 \
        and sent[0].data == dsutils.encode(query(), True, True)
    return ok


class WrapAssoc(object):
    def __init__(self, ua, sop):
        self.ua = ua
        self.sop = sop

    def get_scu(self, sop_class):
        import functools
        if str(sop_class) != self.sop:
            raise exceptions.ClassNotSupportedError('x')
        return functools.partial(sopclass.qr_find_scu, self.ua, ctx_of(3, self.sop))


@cond(bounds='the one-call convenience wrapper pynetdicom2.c_find: k = 0..2 matches (symbolic pending codes), eager / '
             'lagging provider schedule; the association it requests is the in-thread pair described above',
      timeout=240)
def c_find_wrapper(k: int, w0: bool, w1: bool, lazy: bool) -> bool:
    """
    pre: 0 <= k <= 2
    post: _
    """
    k = pick(k, 0, 2)
    pend = [PEND[1] if w else PEND[0] for w in (w0, w1)][:k]
    matches = [(pool(i), statuses.Status(p, dm.CFindRSPMessage)) for i, p in enumerate(pend)]
    pae = ProviderAE(matches)
    ua = UserAssoc(None, pae, sopclass.qr_find_scp, 3, ROOT, 16384, lazy)
    created = []

    class FakeClientAE(object):
        def __init__(self, aet, *a, **kw):
            created.append(self)

        def add_scu(self, svc):
            return self

        @contextlib.contextmanager
        def request_association(self, remote):
            yield WrapAssoc(ua, ROOT)

    class FakeAEModule(object):
        ClientAE = FakeClientAE
    old = pynetdicom2.applicationentity
    pynetdicom2.applicationentity = FakeAEModule
    try:
        got = list(pynetdicom2.c_find({'aet': 'R'}, 'LOCAL', query()))
    finally:
        pynetdicom2.applicationentity = old
    ok = len(got) == k + 1 and len(created) == 1
    if ok:
        for i in range(k):
            ok = ok and got[i][0] is not None and int(got[i][1]) == pend[i] \
                and dsutils.encode(got[i][0], True, True) == dsutils.encode(pool(i), True, True)
        ok = ok and got[k][0] is None and int(got[k][1]) == 0
    deep(ok and k == 2 and lazy)
    return ok


def explain(cname, args, famv):
    if cname == 'find_over_live_acceptor':
        seq = [(1, 3, 5)[c] for c in (args['c0'], args['c1'], args['c2'])][:args['n']]
        results, seen, la = _live_find(seq, args['packed'], args['k'], 40)
        return 'queries on contexts %r (packed=%r, %d matches): handler saw %r; responses per query: %r; provider %r %r' % (
            seq, args['packed'], args['k'], [(c, t) for c, t, _ in seen],
            [[(m.one_context(), m.status) for m in msgs] for _, _, msgs, _ in results], la.pump.err, la.errors)
    return ''
