"""C16 -- C-FIND returns exactly the matches the SCP produced, in order, then stops (sopclass.py, __init__.py)."""
import contextlib
import warnings
import vt
vt.use_repo()
warnings.simplefilter('ignore')
import pydicom
from vt import api
from vt.api import cond, deep, fam, tier, pick
from vt.harness.svc import RecAssoc
from pynetdicom2 import sopclass, dimsemessages as dm, statuses, exceptions, asceprovider, dsutils, fsm
import pynetdicom2

ASSUMPTIONS = [
    'both roles run in one thread: the user callable sends its request into a recording association; when it first '
    'waits for a response the request PDUs are reassembled by the real DIMSEDecoder and handed to the provider callable '
    'on a second recording association, whose P-DATA-TF PDUs are reassembled again and replayed to the user',
    'schedule: the provider thread drains a queued message generator either at once or only after the provider callable '
    'has returned (symbolic boolean) - both are schedules the real two-thread implementation allows',
    'match data sets come from a small pool (concrete elements); application handler yields only pending statuses',
]

IMPLICIT = pydicom.uid.ImplicitVRLittleEndian
ROOT = str(sopclass.PATIENT_ROOT_FIND_SOP_CLASS)
MWL = str(sopclass.MODALITY_WORK_LIST_INFORMATION_FIND_SOP_CLASS)


def ctx_of(cid, sop):
    return asceprovider.PContextDef(cid, pydicom.uid.UID(sop), IMPLICIT)


def pool(i):
    ds = pydicom.Dataset()
    ds.PatientName = ['DOE^JOHN', 'ROE^JANE', 'X', 'LONGER^NAME^WITH^MANY^COMPONENTS'][i % 4]
    ds.PatientID = 'ID-%d' % i
    return ds


def query():
    ds = pydicom.Dataset()
    ds.PatientName = 'DOE*'
    ds.QueryRetrieveLevel = 'PATIENT'
    return ds


def reassemble(pdu_lists):
    """P-DATA-TF PDUs of successive sends -> [(message, context id)] through the real DIMSEDecoder."""
    out = []
    dec = None
    for pdus in pdu_lists:
        for p in pdus:
            if dec is None:
                dec = fsm.DIMSEDecoder({}, set(), None)
            dec.process(p)
            if not dec.receiving:
                out.append((dec.msg, dec.pc_id))
                dec = None
    return out, dec is None


class ProviderAE(object):
    def __init__(self, matches):
        self.matches = matches
        self.seen = []

    def on_receive_find(self, ctx, ds):
        self.seen.append(ds)
        return iter(self.matches)


class UserAssoc(RecAssoc):
    """the user side: the first receive() runs the provider on what has been sent"""

    def __init__(self, ae, provider_ae, scp, cid, sop, maxlen, lazy):
        RecAssoc.__init__(self, ae, maxlen)
        self.provider_ae = provider_ae
        self.scp = scp
        self.cid = cid
        self.sop = sop
        self.lazy = lazy
        self.ran = False
        self.complete = True

    def receive(self):
        if not self.ran:
            self.ran = True
            self.dul.drain()
            msgs, whole = reassemble(self.dul.pdus)
            passoc = RecAssoc(self.provider_ae, self.max_pdu_length, lazy=self.lazy)
            for m, pc in msgs:
                self.scp(passoc, ctx_of(pc, self.sop), m)
            passoc.dul.drain()
            back, whole2 = reassemble(passoc.dul.pdus)
            self.complete = whole and whole2
            self.script.extend(back)
        return RecAssoc.receive(self)


PEND = (0xFF00, 0xFF01)


@cond(bounds='C-FIND user against C-FIND provider (query/retrieve and modality-worklist variants per instance): k = 0..3 '
             'matches (symbolic) with pending status FF00 / FF01 per match (symbolic), message id symbolic 0..65535 in the '
             'first instance and one of {0, 255, 256, 65535} in the others (all-selector instances run outside the tracer), '
             'maximum PDU length 16384, 40 (multi-fragment responses) or exactly one identifier + 6 (one instance each), provider-thread schedule eager / '
             'lagging (symbolic)', family={'mwl': [0, 1], 'msel': [0, 1, 2]}, timeout=600)
def find_end_to_end(k: int, w0: bool, w1: bool, w2: bool, mid: int, lazy: bool) -> bool:
    """
    pre: 0 <= k <= 3 and 0 <= mid <= 65535 and (_traced() or mid <= 3)
    post: _
    """
    from vt import sim
    k = pick(k, 0, 3)
    if _traced():
        ok = _find_e2e(k, (w0, w1, w2), mid, lazy, fam('msel'), fam('mwl'))
    else:
        # every input a selector: concrete from here on, outside the tracer (message id from 4 boundary values)
        ws = tuple(bool(pick(int(w), 0, 1)) for w in (w0, w1, w2))
        lz = bool(pick(int(lazy), 0, 1))
        m = (0, 255, 256, 65535)[pick(mid, 0, 3)]
        with sim._no_tracing():
            ok = _find_e2e(k, ws, m, lz, fam('msel'), fam('mwl'))
    deep(ok and k == 3 and lazy and w1)
    return ok


def _traced():
    """one instance keeps the message id a symbolic 16-bit value through request, provider and responses"""
    return fam('msel') == 0 and fam('mwl') == 0


def _find_e2e(k, ws, mid, lazy, msel, mwl, empty_at=None):
    # maximum PDU length: large, small (many fragments), or such that the first match is exactly one full fragment
    maxlen = (16384, 40, len(dsutils.encode(pool(0), True, True)) + 6)[msel]
    sop = MWL if mwl else ROOT
    scp = sopclass.modality_work_list_scp if mwl else sopclass.qr_find_scp
    scu = sopclass.modality_work_list_scu if mwl else sopclass.qr_find_scu
    pend = [PEND[1] if w else PEND[0] for w in ws][:k]
    # empty_at: that match is an EMPTY identifier (a Dataset without elements: zero octets on the wire)
    matches = [(pydicom.Dataset() if i == empty_at else pool(i), statuses.Status(p, dm.CFindRSPMessage))
               for i, p in enumerate(pend)]
    pae = ProviderAE(matches)
    ua = UserAssoc(None, pae, scp, 3, sop, maxlen, lazy)
    got = []
    n = 0
    for a, b in scu(ua, ctx_of(3, sop), query(), mid):
        got.append((a, b))
        n += 1
        if n > 6:
            break
    ok = ua.complete and len(got) == k + 1
    if ok:
        for i in range(k):
            ds, st = got[i]
            if i == empty_at:
                ok = ok and (ds is None or len(ds) == 0)
            else:
                ok = ok and ds is not None and dsutils.encode(ds, True, True) == dsutils.encode(pool(i), True, True)
            ok = ok and int(st) == pend[i] and st.is_pending
        ds, st = got[k]
        ok = ok and ds is None and int(st) == 0 and st.is_success and not st.is_pending
    # the query reached the provider's handler unchanged, once
    ok = ok and len(pae.seen) == 1 and dsutils.encode(pae.seen[0], True, True) == dsutils.encode(query(), True, True)
    ok = ok and len(ua.script) == 0
    return ok


@cond(bounds='C-FIND user against C-FIND provider (query/retrieve and worklist variant, one instance each): k = 1..3 matches '
             '(symbolic) one of which - at a symbolic position - is an EMPTY identifier (a data set without elements: zero '
             'octets); pending codes FF00 / FF01 symbolic, eager / lagging provider thread symbolic: the user still receives one '
             'response per match, with its status, in order (the empty one as an empty / absent data set), then the final one',
      family={'mwl': [0, 1]}, timeout=300)
def find_empty_identifier(k: int, at: int, w0: bool, w1: bool, w2: bool, lazy: bool) -> bool:
    """
    pre: 1 <= k <= 3 and 0 <= at < k
    post: _
    """
    from vt import sim
    k = pick(k, 1, 3)
    at = pick(at, 0, 2)
    ws = tuple(bool(pick(int(w), 0, 1)) for w in (w0, w1, w2))
    lz = bool(pick(int(lazy), 0, 1))
    with sim._no_tracing():
        ok = _find_e2e(k, ws, 7, lz, 0, fam('mwl'), empty_at=at)
    deep(ok and k == 3 and at == 1 and w1)
    return ok


def _status_in_form(code, form):
    """the ways an application may express a status it yields: the library only ever takes int() of it"""
    if form == 0:
        return statuses.Status(code, dm.CFindRSPMessage)
    if form == 1:
        return statuses.Status(code)                     # without the response type (as the documentation shows it)
    if form == 2:
        return code                                      # plain integer
    return statuses.C_FIND_PENDING if code == 0xFF00 else statuses.C_FIND_PENDING_WARNING


@cond(bounds='C-FIND provider alone (query/retrieve and worklist variant, one instance each): k = 1..3 matches (symbolic), '
             'pending code FF00 / FF01 per match (symbolic), and the FORM in which the application yields each status is a '
             'symbolic choice per match: Status(code, C-FIND-RSP), Status(code) without a response type, plain int, the '
             'module constant - the provider sends exactly k pending responses with those codes and identifiers, in '
             'order, then one final success', family={'mwl': [0, 1]}, timeout=300)
def find_status_forms(k: int, w0: bool, w1: bool, w2: bool, f0: int, f1: int, f2: int) -> bool:
    """
    pre: 1 <= k <= 3 and 0 <= f0 <= 3 and 0 <= f1 <= 3 and 0 <= f2 <= 3
    pre: (k > 1 or (f1 == 0 and not w1)) and (k > 2 or (f2 == 0 and not w2))
    post: _
    """
    from vt import sim
    k = pick(k, 1, 3)
    forms = [pick(f, 0, 3) for f in (f0, f1, f2)][:k]
    ws = [bool(pick(int(w), 0, 1)) for w in (w0, w1, w2)][:k]
    mwl = fam('mwl')
    with sim._no_tracing():
        sop = MWL if mwl else ROOT
        scp = sopclass.modality_work_list_scp if mwl else sopclass.qr_find_scp
        pend = [PEND[1] if w else PEND[0] for w in ws]
        pae = ProviderAE([(pool(i), _status_in_form(p, f)) for i, (p, f) in enumerate(zip(pend, forms))])
        passoc = RecAssoc(pae, 16384)
        rq = dm.CFindRQMessage()
        rq.message_id = 7
        rq.sop_class_uid = sop
        rq.priority = 0
        rq.data_set = dsutils.encode(query(), True, True)
        scp(passoc, ctx_of(3, sop), rq)
        sent = passoc.sent()
        ok = len(sent) == k + 1
        if ok:
            for i in range(k):
                ok = ok and sent[i].status == pend[i] and sent[i].data == dsutils.encode(pool(i), True, True) \
                    and sent[i].responded_to == 7
            ok = ok and sent[k].status == 0 and sent[k].data is None and sent[k].responded_to == 7
    deep(ok and k == 3 and f1 == 1 and w2)
    return ok


def _rsp(status, ds, mid):
    m = dm.CFindRSPMessage()
    m.message_id_being_responded_to = mid
    m.sop_class_uid = ROOT
    m.status = status
    if ds is not None:
        m.data_set = dsutils.encode(ds, True, True)
    return m


@cond(bounds='C-FIND user alone against scripted responses: k = 0..3 pending responses (FF00/FF01 symbolic), then a '
             'final status chosen by symbolic index from {success, A700, C001, FE00 cancel, 0122}, followed by further '
             '(stray) responses that must not be consumed', timeout=400)
def find_user_stops(k: int, w0: bool, w1: bool, w2: bool, fin: int) -> bool:
    """
    pre: 0 <= k <= 3 and 0 <= fin <= 4
    post: _
    """
    from vt import sim
    k, fin = pick(k, 0, 3), pick(fin, 0, 4)
    ws = tuple(bool(pick(int(w), 0, 1)) for w in (w0, w1, w2))
    with sim._no_tracing():               # every input is a selector: concrete from here on
        ok = _find_user_stops(k, ws, fin)
    deep(ok and k == 2 and fin == 3)
    return ok


def _find_user_stops(k, ws, fin):
    final = (0x0000, 0xA700, 0xC001, 0xFE00, 0x0122)[fin]
    pend = [PEND[1] if w else PEND[0] for w in ws][:k]
    script = [(_rsp(p, pool(i), 9), 3) for i, p in enumerate(pend)]
    script.append((_rsp(final, None, 9), 3))
    script.append((_rsp(0xFF00, pool(7), 9), 3))          # must stay unread
    ua = RecAssoc(None, script=script)
    got = list(sopclass.qr_find_scu(ua, ctx_of(3, ROOT), query(), 9))
    ok = len(got) == k + 1 and len(ua.script) == 1
    if ok:
        for i in range(k):
            ok = ok and int(got[i][1]) == pend[i] and got[i][0] is not None \
                and dsutils.encode(got[i][0], True, True) == dsutils.encode(pool(i), True, True)
        ok = ok and got[k][0] is None and int(got[k][1]) == final and not got[k][1].is_pending
    sent = ua.sent()
    ok = ok and len(sent) == 1 and sent[0].command_field == 0x0020 and sent[0].message_id == 9 \
        and sent[0].data == dsutils.encode(query(), True, True)
    return ok


# ------------------------------------------------------------------------------------------------
# octets in, octets out: the provider side is the real acceptor loop over the real provider
# ------------------------------------------------------------------------------------------------

EXPL_LE, EXPL_BE = '1.2.840.10008.1.2.1', '1.2.840.10008.1.2.2'
REUSE = [False]        # the handler of the live conditions yields one re-filled Dataset object (set by the condition)
LIVE_TS = {1: EXPL_LE, 3: EXPL_BE, 5: '1.2.840.10008.1.2'}


def _split_messages(wire):
    """P-DATA-TF octets written by the library -> list of Sent (one per DIMSE message, by last-fragment flags)"""
    from vt.harness.svc import Sent
    from pynetdicom2 import pdu
    out, cur, have_cmd_last, expect_data = [], [], False, False
    for raw in wire:
        if raw[0] != 4:
            continue
        p = pdu.PDataTfPDU.decode(raw)
        cur.append(p)
        for v in p.data_value_items:
            hdr = v.data_value[0]
            if hdr == 3:
                s_ = Sent(cur)
                expect_data = s_.us(0x0800) != 0x0101
                if not expect_data:
                    out.append(s_)
                    cur = []
            elif hdr == 2:
                out.append(Sent(cur))
                cur = []
    return out, not cur


def _live_find(seq, packed, k, mid):
    """one association whose peer got the FIND class accepted on contexts 1 (explicit LE), 3 (explicit BE) and 5
    (implicit LE); queries are sent on the contexts listed in seq; -> list of per-query results"""
    from vt import sim
    from vt.harness import live as L, assoc as A
    from pynetdicom2 import applicationentity, pdu
    L.install(sim.SimClock(1000))
    seen = []

    class Entity(applicationentity.AE):
        def __init__(self):
            applicationentity.AEBase.__init__(self, [EXPL_LE, EXPL_BE, '1.2.840.10008.1.2'], 16384)
            self.supported_scp.update({ROOT: sopclass.qr_find_scp})

        def on_receive_find(self, ctx, ds):
            seen.append((ctx.id, str(ctx.supported_ts), ds))
            if not REUSE[0]:
                return iter([(pool(i), statuses.Status(PEND[i % 2], dm.CFindRSPMessage)) for i in range(k)])

            def one_object():
                # an application that fills ONE Dataset object again for every match and yields it
                ds_ = pydicom.Dataset()
                for i in range(k):
                    src = pool(i)
                    ds_.PatientName = src.PatientName
                    ds_.PatientID = src.PatientID
                    yield ds_, statuses.Status(PEND[i % 2], dm.CFindRSPMessage)
            return one_object()
    ae = Entity()
    la = L.LiveAcceptor(ae, 'PEER')
    rq = pdu.AAssociateRqPDU('SCP', 'PEER', [pdu.ApplicationContextItem(A.APP_CTX)] + [
        pdu.PresentationContextItemRQ(cid, pdu.AbstractSyntaxSubItem(ROOT), [pdu.TransferSyntaxSubItem(ts)])
        for cid, ts in sorted(LIVE_TS.items())] + [A.user_info(16384)])
    la.deliver(rq.encode())
    la.establish()
    results = []
    for j, cid in enumerate(seq):
        ts = pydicom.uid.UID(LIVE_TS[cid])
        m = dm.CFindRQMessage()
        m.message_id = mid + j
        m.sop_class_uid = ROOT
        m.priority = 0
        m.data_set = dsutils.encode(query(), ts.is_implicit_VR, ts.is_little_endian)
        m.set_length()
        pdus = list(m.encode(cid, 16384))
        if packed:
            pdus = [pdu.PDataTfPDU([v for p in pdus for v in p.data_value_items])]
        before = len(la.wire())
        la.deliver(b''.join(p.encode() for p in pdus))
        la.serve_one()
        msgs, whole = _split_messages(la.wire()[before:])
        results.append((cid, ts, msgs, whole))
    return results, seen, la


@cond(bounds='C-FIND provider behind the REAL acceptor loop and provider (octets in, octets out): the FIND class is accepted '
             'on three contexts with different transfer syntaxes (1 explicit LE, 3 explicit BE, 5 implicit LE); 1..3 '
             'queries on one association on contexts chosen by symbolic selectors, each query sent one PDV per PDU or '
             'with command and identifier packed into ONE P-DATA-TF (symbolic); k = 0..3 matches (symbolic), yielded as '
             'separate objects or as ONE Dataset object re-filled for every match (symbolic). Every '
             'query must reach the handler unchanged with the context it arrived on, and its k pending responses + 1 '
             'final response must come back on that context, in that context\'s transfer syntax, in order',
      timeout=300)
def find_over_live_acceptor(c0: int, c1: int, c2: int, n: int, packed: bool, k: int, reuse: bool) -> bool:
    """
    pre: 0 <= c0 <= 2 and 0 <= c1 <= 2 and 0 <= c2 <= 2 and 1 <= n <= 3 and 0 <= k <= 3
    post: _
    """
    from vt import sim
    n, k = pick(n, 1, 3), pick(k, 0, 3)
    seq = [(1, 3, 5)[pick(c, 0, 2)] for c in (c0, c1, c2)][:n]
    packed = bool(pick(int(packed), 0, 1))
    REUSE[0] = bool(pick(int(reuse), 0, 1))
    with sim._no_tracing():
        try:
            ok = _find_over_live(seq, packed, k)
        finally:
            REUSE[0] = False
    deep(ok and n == 3 and packed and k == 2 and seq[0] != seq[1])
    return ok


def _find_over_live(seq, packed, k):
    results, seen, la = _live_find(seq, packed, k, 40)
    ok = la.pump.err is None and len(seen) == len(seq) and la.errors == []
    want_q = dsutils.encode(query(), True, True)
    for j, (cid, ts, msgs, whole) in enumerate(results):
        ok = ok and whole and len(msgs) == k + 1
        if not ok:
            return False
        hcid, hts, hds = seen[j]
        ok = ok and hcid == cid and hts == str(ts) and dsutils.encode(hds, True, True) == want_q
        for i, s_ in enumerate(msgs):
            ok = ok and s_.wellformed and s_.one_context() == cid and s_.command_field == 0x8020 \
                and s_.responded_to == 40 + j
            if i < k:
                ok = ok and s_.status == PEND[i % 2] and s_.data is not None
                if ok:
                    got = dsutils.decode(s_.data, ts.is_implicit_VR, ts.is_little_endian)
                    ok = dsutils.encode(got, True, True) == dsutils.encode(pool(i), True, True)
            else:
                ok = ok and s_.status == 0 and s_.data is None
    return ok


class WrapAssoc(object):
    def __init__(self, ua, sop):
        self.ua = ua
        self.sop = sop

    def get_scu(self, sop_class):
        import functools
        if str(sop_class) != self.sop:
            raise exceptions.ClassNotSupportedError('x')
        return functools.partial(sopclass.qr_find_scu, self.ua, ctx_of(3, self.sop))


@cond(bounds='the one-call convenience wrapper pynetdicom2.c_find: k = 0..2 matches (symbolic pending codes), eager / '
             'lagging provider schedule; the association it requests is the in-thread pair described above',
      timeout=240)
def c_find_wrapper(k: int, w0: bool, w1: bool, lazy: bool) -> bool:
    """
    pre: 0 <= k <= 2
    post: _
    """
    k = pick(k, 0, 2)
    pend = [PEND[1] if w else PEND[0] for w in (w0, w1)][:k]
    matches = [(pool(i), statuses.Status(p, dm.CFindRSPMessage)) for i, p in enumerate(pend)]
    pae = ProviderAE(matches)
    ua = UserAssoc(None, pae, sopclass.qr_find_scp, 3, ROOT, 16384, lazy)
    created = []

    class FakeClientAE(object):
        def __init__(self, aet, *a, **kw):
            created.append(self)

        def add_scu(self, svc):
            return self

        @contextlib.contextmanager
        def request_association(self, remote):
            yield WrapAssoc(ua, ROOT)

    class FakeAEModule(object):
        ClientAE = FakeClientAE
    old = pynetdicom2.applicationentity
    pynetdicom2.applicationentity = FakeAEModule
    try:
        got = list(pynetdicom2.c_find({'aet': 'R'}, 'LOCAL', query()))
    finally:
        pynetdicom2.applicationentity = old
    ok = len(got) == k + 1 and len(created) == 1
    if ok:
        for i in range(k):
            ok = ok and got[i][0] is not None and int(got[i][1]) == pend[i] \
                and dsutils.encode(got[i][0], True, True) == dsutils.encode(pool(i), True, True)
        ok = ok and got[k][0] is None and int(got[k][1]) == 0
    deep(ok and k == 2 and lazy)
    return ok


def _c_find_live(ncalls, k):
    """ncalls consecutive calls of the real pynetdicom2.c_find (real ClientAE, real requester over a live provider)
    against a scripted C-FIND provider answering k pending matches + success; -> list of per-call observations"""
    from vt import sim
    from vt.harness import live as L, assoc as A
    from vt.harness.svc import Sent
    from pynetdicom2 import pdu
    import threading
    L.install(sim.SimClock(1000))
    pynetdicom2._tls = threading.local()
    out = []

    def make_peer(rec):
        def react(new):
            res = []
            for raw in new:
                if raw[0] == 1:
                    rq = pdu.AAssociateRqPDU.decode(raw)
                    pcs = rq.variable_items[1:-1]
                    rec['contexts'] = [(it.context_id, str(it.abs_sub_item.name)) for it in pcs]
                    items = [pdu.ApplicationContextItem(A.APP_CTX)]
                    for it in pcs:
                        items.append(pdu.PresentationContextItemAC(it.context_id, 0,
                                                                   pdu.TransferSyntaxSubItem('1.2.840.10008.1.2')))
                    items.append(A.user_info(16384))
                    res.append(pdu.AAssociateAcPDU(rq.called_ae_title, rq.calling_ae_title, items).encode())
                elif raw[0] == 4:
                    s_ = Sent([pdu.PDataTfPDU.decode(raw)])
                    if s_.command_field != 0x0020:
                        continue                      # the identifier fragment of the request
                    rec['mid'], cid = s_.message_id, s_.one_context()
                    for i in range(k + 1):
                        res.append(b''.join(p.encode() for p in _rsp_wire(
                            0xFF00 if i < k else 0, pool(i) if i < k else None, rec['mid'], cid)))
                elif raw[0] == 5:
                    res.append(pdu.AReleaseRpPDU().encode())
            return res
        return react
    for _ in range(ncalls):
        rec = {}
        L.LiveDulModule.queue = [(L.StepSocket(), L.PeerBot(make_peer(rec)))]
        try:
            got = list(pynetdicom2.c_find({'aet': 'R', 'address': 'h', 'port': 104}, 'LOCAL', query()))
            rec['got'] = [(None if d is None else dsutils.encode(d, True, True), int(st)) for d, st in got]
        except Exception as e:                         # noqa
            rec['error'] = '%s: %s' % (type(e).__name__, e)
        out.append(rec)
    return out


def _rsp_wire(status, ds, mid, cid):
    m = _rsp(status, ds, mid)
    m.set_length()
    return list(m.encode(cid, 16384))


@cond(bounds='the convenience wrapper c_find called n times in a row in one process (n from {1, 2, 3, 64, 65, 70} by symbolic selector: histories), through '
             'the REAL ClientAE and requester over a live provider against a scripted C-FIND provider (k = 0..2 matches): '
             'every call proposes the same presentation contexts, uses a message id not used before in this thread, '
             'and yields exactly the k matches and the final success', timeout=300)
def c_find_repeated(n: int, k: int) -> bool:
    """
    pre: 0 <= n <= 5 and 0 <= k <= 2
    post: _
    """
    from vt import sim
    n, k = (1, 2, 3, 64, 65, 70)[pick(n, 0, 5)], pick(k, 0, 2)
    with sim._no_tracing():
        recs = _c_find_live(n, k)
        want = [(dsutils.encode(pool(i), True, True), 0xFF00) for i in range(k)] + [(None, 0)]
        ok = len(recs) == n
        mids = []
        for r in recs:
            ok = ok and r.get('error') is None and r.get('got') == want and r.get('contexts') == recs[0].get('contexts')
            mids.append(r.get('mid'))
        ok = ok and len(set(mids)) == n and None not in mids
    deep(ok and n == 65)
    return ok


def explain(cname, args, famv):
    if cname == 'find_over_live_acceptor':
        seq = [(1, 3, 5)[c] for c in (args['c0'], args['c1'], args['c2'])][:args['n']]
        results, seen, la = _live_find(seq, args['packed'], args['k'], 40)
        return 'queries on contexts %r (packed=%r, %d matches): handler saw %r; responses per query: %r; provider %r %r' % (
            seq, args['packed'], args['k'], [(c, t) for c, t, _ in seen],
            [[(m.one_context(), m.status) for m in msgs] for _, _, msgs, _ in results], la.pump.err, la.errors)
    return ''
