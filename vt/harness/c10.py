"""C10 -- the negotiated maximum PDU length is honoured in both directions, including 0 (asceprovider.py)."""
import warnings
import vt
vt.use_repo()
warnings.simplefilter('ignore')
from vt.api import cond, deep, fam, tier
from vt.absbytes import LenSeq, LenFile
from vt.harness import assoc as A
from vt.harness.c06 import check_stream, take, _StubDsutils, K
from pynetdicom2 import dimsemessages as dm, pdu

ASSUMPTIONS = [
    'local configured maximum A in [7, 2^32) (documented domain: a maximum that can carry one payload byte); peer-'
    'announced maximum P = 0 (no limit) or in [7, 2^32); both symbolic integers, no grid',
    'association objects built without provider thread; dul.receive scripted; data and command set are LenSeq stand-ins '
    '(data as bytes or as a seekable file, symbolic); the A-ASSOCIATE PDUs pass through the real encode/decode',
]


def send_and_check(asc, P, A_, C, L, as_file=False):
    """Send one message with command length C and data length L; every PDU must respect the peer's limit P."""
    limit = asc.max_pdu_length
    msg = dm.CStoreRQMessage()
    msg.data_set = LenFile(L) if as_file else LenSeq(L)
    _StubDsutils.C = C
    old = dm.dsutils
    dm.dsutils = _StubDsutils
    try:
        msg.set_length = lambda: None            # group length is C08's subject; command set is a stand-in here
        asc.send(msg, 1)
        pdus = take(asc.dul.sent[-1], 2 * K() + 4)
    finally:
        dm.dsutils = old
    cmd, data = [], []
    for p in pdus:
        v = p.data_value_items[0]
        if P != 0 and p.pdu_length > P:
            return False
        hdr = v.data_value[0]
        (cmd if hdr in (1, 3) else data).append((v.data_value[1:], hdr))
    big = 0xFFFFFFFF
    # ability to send: both streams arrive completely, in at least one fragment each
    return check_stream(cmd, C, big, 1, 3, 'cmd') and check_stream(data, L, big, 0, 2, 'data')


def _lim(A_, P):
    return A_ if (P == 0 or P > A_) else P


@cond(bounds='acceptor: configured maximum A in [7, 2^32), requestor-announced P in {0} u [7, 2^32), then one message '
             'with command length C and data length L up to K fragments of the resulting limit - all symbolic',
      timeout=420)
def acceptor_maxlen(A_: int, P: int, C: int, L: int, as_file: bool) -> bool:
    """
    pre: 7 <= A_ <= 0xFFFFFFFF and (P == 0 or 7 <= P <= 0xFFFFFFFF)
    pre: 1 <= C <= 2 * (_lim(A_, P) - 6) and 1 <= L <= K() * (_lim(A_, P) - 6)
    post: _
    """
    ae = A.StubAE('SCP', supported_ts=['1.2.840.10008.1.2'])
    acc = A.make_acceptor(ae, A_)
    rq = pdu.AAssociateRqPDU('SCP', 'SCU', [pdu.ApplicationContextItem(A.APP_CTX), A.user_info(P)])
    rq = pdu.AAssociateRqPDU.decode(rq.encode())          # the peer's value arrives over the wire
    acc.accept(rq)
    reply = pdu.AAssociateAcPDU.decode(acc.dul.sent[0].encode())   # and the reply leaves over it
    announced = A.find_maxlen(reply)
    # announces a value it is itself prepared to receive: its configured maximum or less (0 would mean "no limit")
    ok = announced is not None and 1 <= announced <= A_
    ok = ok and send_and_check(acc, P, A_, C, L, as_file)
    deep(ok and P == 0 and L > A_)
    return ok


@cond(bounds='requestor: configured maximum A in [7, 2^32), acceptor-announced P in {0} u [7, 2^32), then one message as '
             'above - all symbolic', timeout=420)
def requester_maxlen(A_: int, P: int, C: int, L: int, as_file: bool) -> bool:
    """
    pre: 7 <= A_ <= 0xFFFFFFFF and (P == 0 or 7 <= P <= 0xFFFFFFFF)
    pre: 1 <= C <= 2 * (_lim(A_, P) - 6) and 1 <= L <= K() * (_lim(A_, P) - 6)
    post: _
    """
    ae = A.StubAE('SCU')
    ac = pdu.AAssociateAcPDU('SCP', 'SCU', [pdu.ApplicationContextItem(A.APP_CTX), A.user_info(P)])
    ac = pdu.AAssociateAcPDU.decode(ac.encode())          # the peer's value arrives over the wire
    rq = A.make_requester(ae, A_, {'aet': 'SCP', 'address': 'h', 'port': 104}, [ac])
    rq.request()
    sent_rq = pdu.AAssociateRqPDU.decode(rq.dul.sent[0].encode())
    announced = A.find_maxlen(sent_rq)
    ok = announced is not None and 1 <= announced <= A_
    ok = ok and send_and_check(rq, P, A_, C, L, as_file)
    deep(ok and P == 0 and L > A_)
    return ok


# ------------------------------------------------------------------------------------------------
# "each side announces a value it is itself prepared to receive": octets in, over the real provider
# ------------------------------------------------------------------------------------------------

LOCAL = [64, 256, 1024]
PEER = [0, 32, 64, 200, 256, 1000, 65536]
VERIF_SOP = '1.2.840.10008.1.1'
CT = '1.2.840.10008.5.1.4.1.1.2'


def _store_wire(maxlen, nbytes):
    """a C-STORE-RQ with an nbytes data set, fragmented for maximum PDU length maxlen -> (octets, data)"""
    m = dm.CStoreRQMessage()
    m.message_id = 5
    m.sop_class_uid = CT
    m.affected_sop_instance_uid = '1.2.3'
    m.priority = 0
    data = bytes((i * 7 + 1) % 256 for i in range(nbytes))
    m.data_set = data
    m.set_length()
    pdus = list(m.encode(3, maxlen))
    return b''.join(p.encode() for p in pdus), data, max(p.pdu_length for p in pdus)


def _announced_in(raw):
    from vt.refs import ps38
    v = ps38.parse(raw)
    for it in v['items']:
        if it[0] == 'user':
            for sub in it[2]:
                if sub[0] == 'maxlen':
                    return sub[2]
    return None


def _live_receive(role, a_loc, p_peer):
    """-> (value the library announced, largest PDU the peer then sent, message received intact?, A-ABORT written?)"""
    import pydicom
    from vt import sim
    from vt.harness import live as L
    from pynetdicom2 import applicationentity, sopclass
    L.install(sim.SimClock(1000))
    got = []
    if role == 'acceptor':
        class Entity(applicationentity.AE):
            def __init__(self):
                applicationentity.AEBase.__init__(self, ['1.2.840.10008.1.2'], a_loc)
                self.supported_scp.update({CT: sopclass.storage_scp, VERIF_SOP: sopclass.verification_scp})
                self.store_in_file.add(CT)

            def on_receive_store(self, ctx, ds):
                from vt.refs import part10
                whole = ds.read()
                meta, off = part10.read_meta(whole)
                got.append(whole[off:])
                return 0

        class _Tempfile(object):
            @staticmethod
            def TemporaryFile(*a, **k):
                return pdu.cStringIO()
        applicationentity.tempfile = _Tempfile
        ae = Entity()
        la = L.LiveAcceptor(ae, 'PEER', a_loc)
        rq = pdu.AAssociateRqPDU('SCP', 'PEER', [
            pdu.ApplicationContextItem(A.APP_CTX),
            pdu.PresentationContextItemRQ(3, pdu.AbstractSyntaxSubItem(CT), [pdu.TransferSyntaxSubItem('1.2.840.10008.1.2')]),
            A.user_info(p_peer)])
        la.deliver(rq.encode())
        la.establish()
        wire = la.wire()
        announced = _announced_in(wire[0]) if wire else None
        if not announced:
            return announced, 0, False, False
        octets, data, biggest = _store_wire(announced, 2 * announced + 11)
        la.deliver(octets)
        la.serve_one()
        aborted = any(w[0] == 7 for w in la.wire())
        return announced, biggest, got == [data] and la.pump.err is None, aborted
    # requester
    class Client(applicationentity.ClientAE):
        pass
    ae = Client('LOCAL', ['1.2.840.10008.1.2'], a_loc)

    def store_user(asce, ctx, *a):
        return None
    ae.add_scu(store_user, [CT])
    state = {'announced': None}

    def react(new):
        out = []
        for raw in new:
            if raw[0] == 1:
                state['announced'] = _announced_in(raw)
                ac = pdu.AAssociateAcPDU('REMOTE', 'LOCAL', [
                    pdu.ApplicationContextItem(A.APP_CTX),
                    pdu.PresentationContextItemAC(1, 0, pdu.TransferSyntaxSubItem('1.2.840.10008.1.2')),
                    A.user_info(p_peer)])
                out.append(ac.encode())
        return out
    lr = L.LiveRequester(ae, {'aet': 'REMOTE', 'address': 'h', 'port': 104}, react)
    lr.asce.request()
    announced = state['announced']
    if not announced:
        return announced, 0, False, False
    m = dm.CStoreRSPMessage()                  # any message with a data set would do: a C-GET sub-operation request
    octets, data, biggest = _store_wire(announced, 2 * announced + 11)
    lr.sock.inbox.append(octets)
    try:
        msg, cid = lr.asce.receive()
        intact = cid == 3 and msg.data_set == data and lr.pump.err is None
    except Exception:
        intact = False
    aborted = any(w[0] == 7 for w in lr.wire())
    return announced, biggest, intact, aborted


@cond(bounds='both roles over the REAL provider (octets in): local configured maximum from {64, 256, 1024}, peer-announced '
             'maximum from {0, 32, 64, 200, 256, 1000, 65536} (symbolic selectors); the value the library announces is '
             'read from its A-ASSOCIATE PDU on the wire, then the peer sends a C-STORE-RQ whose P-DATA-TF PDUs are as '
             'long as that announced value allows (data set of 2 x announced + 11 bytes): it must be received intact '
             'and not be answered with A-ABORT - whatever the peer announced for the other direction',
      family={'role': ['acceptor', 'requester']}, timeout=240)
def receives_what_it_announced(ai: int, pi: int) -> bool:
    """
    pre: 0 <= ai < len(LOCAL) and 0 <= pi < len(PEER)
    post: _
    """
    from vt import sim
    from vt.api import pick
    a_loc, p_peer = LOCAL[pick(ai, 0, len(LOCAL) - 1)], PEER[pick(pi, 0, len(PEER) - 1)]
    with sim._no_tracing():                    # concrete from here on: the solver chose the pair
        announced, biggest, intact, aborted = _live_receive(fam('role'), a_loc, p_peer)
    ok = announced is not None and 1 <= announced <= a_loc and biggest == announced and intact and not aborted
    deep(ok and p_peer == 32 and a_loc == 1024)
    return ok


def explain(cname, args, famv):
    if cname == 'receives_what_it_announced':
        a_loc, p_peer = LOCAL[args['ai']], PEER[args['pi']]
        return 'configured %d, peer announced %d -> (announced by the library, largest PDU sent by the peer, received ' \
               'intact, A-ABORT written) = %r' % (a_loc, p_peer, _live_receive(famv['role'], a_loc, p_peer))
    return ('configured %d, peer announced %d (0 = no limit): the library must announce 1..configured and still '
            'deliver a %d-byte data set in PDUs <= peer limit' % (args['A_'], args['P'], args['L']))
