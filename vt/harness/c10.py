"""C10 -- the negotiated maximum PDU length is honoured in both directions, including 0 (asceprovider.py)."""
import warnings
import vt
vt.use_repo()
warnings.simplefilter('ignore')
from vt.api import cond, deep, fam, tier
from vt.absbytes import LenSeq, LenFile
from vt.harness import assoc as A
from vt.harness.c06 import check_stream, take, _StubDsutils, K
from pynetdicom2 import dimsemessages as dm, pdu

ASSUMPTIONS = [
    'local configured maximum A in [7, 2^32) (documented domain: a maximum that can carry one payload byte); peer-'
    'announced maximum P = 0 (no limit) or in [7, 2^32); both symbolic integers, no grid',
    'association objects built without provider thread; dul.receive scripted; data and command set are LenSeq stand-ins '
    '(data as bytes or as a seekable file, symbolic); the A-ASSOCIATE PDUs pass through the real encode/decode',
]


def send_and_check(asc, P, A_, C, L, as_file=False):
    """Send one message with command length C and data length L; every PDU must respect the peer's limit P."""
    limit = asc.max_pdu_length
    msg = dm.CStoreRQMessage()
    msg.data_set = LenFile(L) if as_file else LenSeq(L)
    _StubDsutils.C = C
    old = dm.dsutils
    dm.dsutils = _StubDsutils
    try:
        msg.set_length = lambda: None            # group length is C08's subject; command set is a stand-in here
        asc.send(msg, 1)
        pdus = take(asc.dul.sent[-1], 2 * K() + 4)
    finally:
        dm.dsutils = old
    cmd, data = [], []
    for p in pdus:
        v = p.data_value_items[0]
        if P != 0 and p.pdu_length > P:
            return False
        hdr = v.data_value[0]
        (cmd if hdr in (1, 3) else data).append((v.data_value[1:], hdr))
    big = 0xFFFFFFFF
    # ability to send: both streams arrive completely, in at least one fragment each
    return check_stream(cmd, C, big, 1, 3, 'cmd') and check_stream(data, L, big, 0, 2, 'data')


def _lim(A_, P):
    return A_ if (P == 0 or P > A_) else P


@cond(bounds='acceptor: configured maximum A in [7, 2^32), requestor-announced P in {0} u [7, 2^32), then one message '
             'with command length C and data length L up to K fragments of the resulting limit - all symbolic',
      timeout=180)
def acceptor_maxlen(A_: int, P: int, C: int, L: int, as_file: bool) -> bool:
    """
    pre: 7 <= A_ <= 0xFFFFFFFF and (P == 0 or 7 <= P <= 0xFFFFFFFF)
    pre: 1 <= C <= 2 * (_lim(A_, P) - 6) and 1 <= L <= K() * (_lim(A_, P) - 6)
    post: _
    """
    ae = A.StubAE('SCP', supported_ts=['1.2.840.10008.1.2'])
    acc = A.make_acceptor(ae, A_)
    rq = pdu.AAssociateRqPDU('SCP', 'SCU', [pdu.ApplicationContextItem(A.APP_CTX), A.user_info(P)])
    rq = pdu.AAssociateRqPDU.decode(rq.encode())          # the peer's value arrives over the wire
    acc.accept(rq)
    reply = pdu.AAssociateAcPDU.decode(acc.dul.sent[0].encode())   # and the reply leaves over it
    announced = A.find_maxlen(reply)
    # announces a value it is itself prepared to receive: its configured maximum or less (0 would mean "no limit")
    ok = announced is not None and 1 <= announced <= A_
    ok = ok and send_and_check(acc, P, A_, C, L, as_file)
    deep(ok and P == 0 and L > A_)
    return ok


@cond(bounds='requestor: configured maximum A in [7, 2^32), acceptor-announced P in {0} u [7, 2^32), then one message as '
             'above - all symbolic', timeout=180)
def requester_maxlen(A_: int, P: int, C: int, L: int, as_file: bool) -> bool:
    """
    pre: 7 <= A_ <= 0xFFFFFFFF and (P == 0 or 7 <= P <= 0xFFFFFFFF)
    pre: 1 <= C <= 2 * (_lim(A_, P) - 6) and 1 <= L <= K() * (_lim(A_, P) - 6)
    post: _
    """
    ae = A.StubAE('SCU')
    ac = pdu.AAssociateAcPDU('SCP', 'SCU', [pdu.ApplicationContextItem(A.APP_CTX), A.user_info(P)])
    ac = pdu.AAssociateAcPDU.decode(ac.encode())          # the peer's value arrives over the wire
    rq = A.make_requester(ae, A_, {'aet': 'SCP', 'address': 'h', 'port': 104}, [ac])
    rq.request()
    sent_rq = pdu.AAssociateRqPDU.decode(rq.dul.sent[0].encode())
    announced = A.find_maxlen(sent_rq)
    ok = announced is not None and 1 <= announced <= A_
    ok = ok and send_and_check(rq, P, A_, C, L, as_file)
    deep(ok and P == 0 and L > A_)
    return ok


def explain(cname, args, famv):
    return ('configured %d, peer announced %d (0 = no limit): the library must announce 1..configured and still '
            'deliver a %d-byte data set in PDUs <= peer limit' % (args['A_'], args['P'], args['L']))
