"""C13 -- every association ending terminates the provider and releases the connection."""
import warnings
import vt
vt.use_repo()
warnings.simplefilter('ignore')
from vt import api
from vt.api import cond, deep, fam, tier, pick
from vt.absbytes import AbsBytes
from vt.harness import prov
from vt.harness.c03 import pdu_split, windows
from pynetdicom2 import pdu

ASSUMPTIONS = [
    'the real provider loop runs in the calling thread over the simulated transport (vt/harness/prov.py); a recv() on '
    'an open connection whose peer stays silent raises Hang (a blocking socket would block for ever) and counts as a '
    'violation; select() never blocks longer than its timeout',
    'time is a symbolic variable: the simulated clock advances by a symbolic number of seconds dt >= 1 per loop '
    'iteration, so "just before", "exactly at" and "long after" the 10 s ARTIM limit are all covered',
    'stop/kill: the termination flag is raised at a symbolic loop iteration; the two-thread handshake of kill() itself '
    '(Event.wait) is outside the claim',
]

CORPUS = prov.get_corpus()
NAMES = sorted(CORPUS)
INSTANCES = [dict(conv=n, turn=t, how=h) for n in NAMES for t in prov.peer_turns(CORPUS[n][1]) for h in ('close', 'reset')]

ASSOC_START = (1, 2)        # indications that tell the user an association exists: A-ASSOCIATE indication / confirmation


def user_informed(trace, conv):
    """If the user had been told of an association and nothing has ended it in the user's view, the last indication
    must be an abort."""
    alive = False
    for kind in [i[1] if i[0] == 'pdu' else 'dimse' for i in trace.indications]:
        if kind in ASSOC_START:
            alive = True
        elif kind in (3, 6, 7):
            alive = False
    if not alive:
        return True
    # the user itself may have ended it: A-ABORT request, A-RELEASE response, A-ASSOCIATE reject response
    for i, (k, payload, gate) in enumerate(conv.turns):
        if k == 'user' and conv.done_turn[i] and getattr(payload, 'pdu_type', None) in (3, 6, 7):
            return True
    return False


def ended_cleanly(trace, conv):
    """idle, transport closed and released, ARTIM stopped, user told, and the loop did not hang.  A loop that ended
    with an error *after* reaching idle (a primitive the user issued concurrently with the peer's disconnect meets
    Sta1) still satisfies the property as long as its exit event is set: stop requests complete."""
    if trace.err is not None and (trace.err.startswith('hang') or not trace.exit_set):
        return False
    return (not trace.over_budget and trace.state == 0 and trace.closed
            and trace.socket_released and not trace.timer_running and user_informed(trace, conv))


@cond(bounds='every conversation x every peer turn: the peer disconnects after a symbolic byte prefix 0 <= p <= len of '
             'that turn (all prefixes at once; earlier turns complete, one PDU per segment) - by an orderly close or by a '
             'connection reset that is already pending when the last bytes are read (one instance each); the local user keeps '
             'issuing the primitives of the scenario as far as their gates are reached',
      family=INSTANCES, timeout=240)
def disconnect_after_prefix(p: int) -> bool:
    """
    pre: 0 <= p <= len(CORPUS[fam('conv')][1][fam('turn')][1])
    post: _
    """
    name, turn = fam('conv'), fam('turn')
    acc, turns = CORPUS[name]
    cut = []
    for i, t in enumerate(turns):
        if i < turn:
            cut.append(t)
        elif i == turn:
            cut.append(t)
            cut.append((fam('how'), None, t[2]))
        elif t[0] == 'user':
            cut.append(t)

    def seg(i, raw):
        if i == turn:
            return windows(raw, (p,))[:1] if p > 0 else [None]
        return pdu_split(raw)
    conv = prov.Conversation(cut, acceptor=acc, segmenter=seg)
    conv.drop_none = True
    tr = conv.run()
    ok = ended_cleanly(tr, conv)
    deep(ok and 3 < p < 9)
    return ok


def _prev_peer_turn(name, turn):
    prev = [t for t in prov.peer_turns(CORPUS[name][1]) if t < turn]
    return prev[-1] if prev else None


@cond(bounds='thorough tier: as disconnect_after_prefix, and in addition the peer turn BEFORE the one that is cut short is itself '
             'delivered in two segments cut at a symbolic offset c (unbounded symbolic integer; all cuts at once): segmentation '
             'history and disconnection point together', tiers=('thorough',),
      family=[i for i in INSTANCES if _prev_peer_turn(i['conv'], i['turn']) is not None], timeout=240, thorough_timeout=900)
def disconnect_after_prefix_segmented(p: int, c: int) -> bool:
    """
    pre: 0 <= p <= len(CORPUS[fam('conv')][1][fam('turn')][1])
    pre: 0 <= c <= len(CORPUS[fam('conv')][1][_prev_peer_turn(fam('conv'), fam('turn'))][1])
    post: _
    """
    name, turn = fam('conv'), fam('turn')
    before = _prev_peer_turn(name, turn)
    acc, turns = CORPUS[name]
    cut = []
    for i, t in enumerate(turns):
        if i < turn:
            cut.append(t)
        elif i == turn:
            cut.append(t)
            cut.append((fam('how'), None, t[2]))
        elif t[0] == 'user':
            cut.append(t)

    def seg(i, raw):
        if i == turn:
            return windows(raw, (p,))[:1] if p > 0 else [None]
        if i == before:
            return windows(raw, (c,))
        return pdu_split(raw)
    conv = prov.Conversation(cut, acceptor=acc, segmenter=seg)
    conv.drop_none = True
    tr = conv.run()
    ok = ended_cleanly(tr, conv)
    deep(ok and 3 < p < 9 and 2 < c < 12)
    return ok


def _silent(name, upto, extra_user=()):
    """conversation `name` truncated before turn index `upto` (the peer then stays silent and never closes)"""
    acc, turns = CORPUS[name]
    return acc, list(turns[:upto]) + list(extra_user)


def silence_points():
    pts = {}
    pts['acceptor_no_request'] = (True, [])
    pts['acceptor_partial_request'] = (True, [('peer', CORPUS['acc_reject'][1][0][1][:37], 0)])
    _rq = CORPUS['acc_reject'][1][0][1]
    # the first PDU dribbles in: header complete after the first piece, two more pieces, then silence
    pts['acceptor_request_in_three_pieces'] = (True, [('peer', _rq[:30], 0), ('peer', _rq[30:60], 0), ('peer', _rq[60:90], 0)])
    pts['acceptor_header_only'] = (True, [('peer', _rq[:6], 0)])
    acc, t = CORPUS['acc_reject']
    pts['after_reject_sent'] = (acc, t[:-1])
    acc, t = CORPUS['acc_echo_release']
    pts['after_release_response_sent'] = (acc, t[:-1])
    acc, t = CORPUS['acc_local_abort']
    pts['after_local_abort_sent'] = (acc, t[:-1])
    acc, t = CORPUS['req_peer_release']
    pts['requestor_after_release_response_sent'] = (acc, t[:-1])
    acc, t = CORPUS['req_echo_release']
    pts['requestor_abort_while_awaiting_reply'] = (acc, [t[0], ('user', pdu.AAbortPDU(0, 0), 0)])
    return pts


SILENCE = silence_points()


@cond(bounds='peer silence at each point where PS3.8 arms ARTIM (awaiting the first PDU, after a partial first PDU, '
             'after A-ASSOCIATE-RJ, A-RELEASE-RP or A-ABORT was sent; both roles): the peer neither sends nor closes; '
             'the clock advances by a symbolic dt in 1..30 seconds per loop iteration',
      family=[dict(point=k) for k in sorted(SILENCE)], timeout=240)
def silent_peer(dt: int) -> bool:
    """
    pre: 1 <= dt <= 30
    post: _
    """
    acc, turns = SILENCE[fam('point')]
    conv = prov.Conversation(turns, acceptor=acc, budget=60)
    conv.tick = dt
    conv.silent = True
    tr = conv.run()
    ok = ended_cleanly(tr, conv)
    # bounded by the ARTIM timer: the provider is idle within a few loop iterations after the 10 s limit has been exceeded
    ok = ok and conv.idle_at is not None and conv.armed_at is not None and conv.idle_at - conv.armed_at <= 10 + 3 * dt
    deep(ok and dt == 10)
    return ok


@cond(bounds='a request to stop the provider: the termination flag is raised at a symbolic loop iteration k of every '
             'conversation (0 <= k <= 14): the loop returns without error before the next iteration and sets its exit '
             'event', family=[dict(conv=n) for n in NAMES], timeout=240)
def kill_any_time(k: int) -> bool:
    """
    pre: 0 <= k <= 14
    post: _
    """
    name = fam('conv')
    acc, turns = CORPUS[name]
    conv = prov.Conversation(turns, acceptor=acc, segmenter=lambda i, raw: pdu_split(raw))
    conv.kill_at = pick(k, 0, 14)
    tr = conv.run()
    no_hang = tr.err is None or not tr.err.startswith('hang')
    ok = no_hang and not tr.over_budget and tr.exit_set and \
        (tr.steps <= max(conv.kill_at, 1) + 1 or conv.finished() or tr.err is not None)
    deep(ok and k == 3)
    return ok


def _written_total(name):
    """number of PDUs the provider writes in the complete conversation (computed once, outside the solver)"""
    if name not in _WRITTEN:
        acc, turns = CORPUS[name]
        _WRITTEN[name] = prov.Conversation(turns, acceptor=acc, segmenter=lambda i, raw: pdu_split(raw)).run().n_sent
    return _WRITTEN[name]


_WRITTEN = {}


def _cut_at_written(name, g, how):
    """the conversation in which the peer disconnects at the moment the provider has written g PDUs: peer turns that
    wait for more than g written PDUs never happen, the local user goes on as far as its gates are reached"""
    acc, turns = CORPUS[name]
    out = []
    placed = False
    for t in turns:
        if t[0] in ('close', 'reset'):
            continue
        if t[0] == 'peer' and t[2] > g:
            if not placed:
                out.append((how, None, g))
                placed = True
            continue
        if t[0] == 'peer' and placed:
            continue
        out.append(t)
    if not placed:
        out.append((how, None, g))
    return acc, out


@cond(bounds='disconnection between any two local steps: in every conversation the peer disconnects (orderly close / reset: '
             'one instance each) at the moment the provider has written g PDUs, g a symbolic choice in 0..all PDUs the '
             'provider writes in that conversation (e.g. between two fragments of a message being sent, between the '
             'response and the release); every peer turn that does not wait for more than g written PDUs is delivered '
             'before, the local user goes on issuing the primitives of the scenario as far as their gates are reached',
      family=[dict(conv=n, how=h) for n in NAMES for h in ('close', 'reset')], timeout=240)
def disconnect_between_local_steps(g: int) -> bool:
    """
    pre: 0 <= g <= _written_total(fam('conv'))
    post: _
    """
    name = fam('conv')
    gg = pick(g, 0, _written_total(name))
    acc, cut = _cut_at_written(name, gg, fam('how'))
    conv = prov.Conversation(cut, acceptor=acc, segmenter=lambda i, raw: pdu_split(raw))
    tr = conv.run()
    ok = ended_cleanly(tr, conv)
    deep(ok and gg == _written_total(name))
    return ok


@cond(bounds='a request to stop the provider while the peer is silent: at every silence point the termination flag is raised '
             'at a symbolic loop iteration k in 0..12 with the clock advancing by a symbolic dt in 0..30 s per iteration: the '
             'loop returns (no blocking read, exit event set) within two iterations of the request, whether or not ARTIM '
             'has expired by then',
      family=[dict(point=k) for k in sorted(SILENCE)], timeout=240)
def kill_while_silent(k: int, dt: int) -> bool:
    """
    pre: 0 <= k <= 12 and 0 <= dt <= 30
    post: _
    """
    acc, turns = SILENCE[fam('point')]
    conv = prov.Conversation(turns, acceptor=acc, budget=60)
    conv.tick = dt
    conv.silent = True
    conv.kill_at = pick(k, 0, 12)
    tr = conv.run()
    no_hang = tr.err is None or not tr.err.startswith('hang')
    ok = no_hang and not tr.over_budget and tr.exit_set and \
        (tr.steps <= conv.kill_at + 2 or conv.finished() or tr.err is not None)
    deep(ok and k == 5 and dt == 3)
    return ok


@cond(bounds='two acceptor-side associations on one entity over REAL providers: A\'s peer connects and never sends its first '
             'PDU (or: A refused the association and the peer never closes - one instance each); meanwhile a second '
             'association B is accepted, served and released normally; then the clock advances by a SYMBOLIC dt in '
             '0..30 s: A must be idle with its connection closed iff its own ARTIM limit has been exceeded, B\'s '
             'traffic notwithstanding', family={'a_state': ['sta2', 'sta13']}, timeout=240)
def artim_next_to_other_association(dt: int, b_first: bool) -> bool:
    """
    pre: 0 <= dt <= 30
    post: _
    """
    from vt import sim
    from vt.harness import live as L, assoc as A
    from pynetdicom2 import applicationentity, sopclass, exceptions as exc
    clock = sim.SimClock(1000)
    with sim._no_tracing():
        L.install(clock)

        class Entity(applicationentity.AE):
            def __init__(self):
                applicationentity.AEBase.__init__(self, ['1.2.840.10008.1.2'], 16384)
                self.add_scp(sopclass.verification_scp)
                self.refuse = False

            def on_association_request(self, asce, rq):
                if self.refuse:
                    raise exc.AssociationRejectedError(1, 1, 3)

            def on_receive_echo(self, ctx):
                return 0
        ae = Entity()
        rq = CORPUS['acc_echo_release'][1][0][1]

        def run_b():
            b = L.LiveAcceptor(ae, 'B')
            b.deliver(rq)
            b.establish()
            b.deliver(CORPUS['acc_echo_release'][1][2][1])
            b.serve_one()
            b.deliver(pdu.AReleaseRqPDU().encode())
            b.serve_one()
            return b
        b = run_b() if b_first else None
        a = L.LiveAcceptor(ae, 'A')
        if fam('a_state') == 'sta13':
            ae.refuse = True
            a.deliver(rq)
            a.establish()
            ae.refuse = False
        if not b_first:
            b = run_b()
        state_before = a.pump.state()
    # time passes; A's provider thread gets to run
    clock.now = clock.now + dt
    a.pump.run()
    if dt == 10:
        return True                        # exactly the limit: either
    expired = dt > 10
    ok = a.pump.err is None and state_before == (2 if fam('a_state') == 'sta2' else 13)
    if expired:
        ok = ok and a.pump.state() == 1 and a.sock.closed and a.prov.dul_socket is None
    else:
        ok = ok and a.pump.state() == state_before and not a.sock.closed
    deep(ok and expired and not b_first)
    return ok


FLOOD = (1, 2, 31, 32, 33, 34, 48, 100)


@cond(bounds='the association ends while indications pile up unread: the peer pipelines n complete C-ECHO-RQ messages, n from {1, 2, '
             '31, 32, 33, 34, 48, 100} by symbolic selector, the local user reads none of them; then the peer closes / resets '
             'the connection / sends an A-ABORT and closes (symbolic choice) - or nothing more happens and the provider is '
             'asked to stop at a symbolic later iteration: the loop takes every message, is never parked behind its own '
             'indications, ends idle with the transport closed, has told the user, and a stop request completes', timeout=240)
def ends_behind_unread_indications(sel: int, how: int, k: int) -> bool:
    """
    pre: 0 <= sel <= 7 and 0 <= how <= 3 and 0 <= k <= 3
    post: _
    """
    from vt import sim
    n = FLOOD[pick(sel, 0, 7)]
    how = pick(how, 0, 3)
    k = pick(k, 0, 3)
    with sim._no_tracing():
        acc, turns = CORPUS['acc_echo_release']
        echo = turns[2][1]
        flood = echo * n
        tail = [[('close', None, 1)], [('reset', None, 1)],
                [('peer', pdu.AAbortPDU(0, 0).encode(), 1), ('close', None, 1)], []][how]
        conv = prov.Conversation(list(turns[:2]) + [('peer', flood, 1)] + tail, acceptor=acc, budget=400,
                                 segmenter=lambda i, raw: [raw])
        if how == 3:
            # nobody ends the association: the stop request comes k iterations after the flood has been taken in
            conv.kill_at = 2 + n + 1 + k
        tr = conv.run()
        n_dimse = len([i for i in tr.indications if i[0] == 'dimse'])
        no_hang = tr.err is None or not tr.err.startswith('hang')
        if how == 3:
            ok = no_hang and not tr.over_budget and tr.exit_set and n_dimse == n and tr.steps <= conv.kill_at + 2
        else:
            ok = ended_cleanly(tr, conv) and n_dimse == n
    ends_behind_unread_indications.last = (n, how, repr(tr))
    deep(ok and n == 33 and how == 2)
    return ok


SILENT_AT = ['no_reply_to_request', 'no_reply_to_echo', 'no_reply_to_release']


@cond(bounds='a request to stop always completes, public API over a REAL provider facing a scripted peer: a requested '
             'association whose peer goes silent without closing at a point where PS3.8 arms no ARTIM timer - it never '
             'answers the A-ASSOCIATE-RQ (Sta5), it accepts and never answers the C-ECHO-RQ (Sta6), it answers and never '
             'confirms the A-RELEASE-RQ (Sta7) (one instance each); the body of the with-block ends normally or raises '
             '(symbolic), the local time-out and the clock advance are symbolic: the context manager is left with the '
             'time-out (or the body\'s) error, Association.kill() has returned (bounded polling, termination flag '
             'honoured by the loop), nothing blocks', family={'silent': SILENT_AT}, timeout=240)
def stop_completes_with_silent_peer(body_raises: bool, timeout_s: int, dt: int) -> bool:
    """
    pre: 1 <= timeout_s <= 60 and 0 <= dt <= 60
    post: _
    """
    from vt import sim
    from vt.harness import live as L
    from vt.harness.c14 import _client_ae, _ac_for, _echo_rsp_wire, VERIF_SOP
    from pynetdicom2 import exceptions
    silent = fam('silent')
    clock = sim.SimClock(1000)
    with sim._no_tracing():
        L.install(clock)
        ae = _client_ae()
    ae.timeout = timeout_s

    def react(new):
        out = []
        for raw in new:
            if raw[0] == 1 and silent != 'no_reply_to_request':
                out.append(_ac_for(raw))
            elif raw[0] == 4 and silent == 'no_reply_to_release':
                out.append(_echo_rsp_wire(1))
        return out
    L.LiveDulModule.queue.append((L.StepSocket(), L.PeerBot(react)))
    outcome = None
    try:
        with ae.request_association({'aet': 'REMOTE', 'address': 'h', 'port': 104}) as asce:
            clock.now = clock.now + dt
            if silent != 'no_reply_to_request':
                asce.get_scu(VERIF_SOP)(1)
            if body_raises:
                raise ValueError('body')
        outcome = 'left normally'
    except exceptions.DCMTimeoutError:
        outcome = 'timeout'
    except ValueError:
        outcome = 'body error'
    except api.Hang as h:
        outcome = 'hang: %s' % (h,)
    except exceptions.NetDICOMError as e:
        outcome = 'other: %s' % type(e).__name__
    prov = L.LiveDulModule.created[-1]
    expected = {'no_reply_to_request': ('timeout',), 'no_reply_to_echo': ('timeout',),
                'no_reply_to_release': ('body error',) if body_raises else ('timeout',)}[silent]
    ok = outcome in expected and prov._vt_killed and prov._vt_pump.err is None and not prov._vt_pump.over_budget
    deep(ok and body_raises and dt == 11)
    stop_completes_with_silent_peer.last = (outcome, prov._vt_killed, prov._vt_pump.err, prov._vt_stop_calls, prov._vt_pump.state())
    return ok


def explain(cname, args, famv):
    if cname == 'ends_behind_unread_indications':
        ends_behind_unread_indications(**args)
        return '%d unread messages, then %s: %s' % (ends_behind_unread_indications.last[0],
                                                    ('close', 'reset', 'A-ABORT + close', 'stop request')[ends_behind_unread_indications.last[1]],
                                                    ends_behind_unread_indications.last[2])
    if cname == 'stop_completes_with_silent_peer':
        stop_completes_with_silent_peer(**args)
        return 'peer silent: %s; outcome=%r kill() returned=%r loop error=%r stop() polled %d times, provider state Sta%d' % (
            (famv['silent'],) + stop_completes_with_silent_peer.last)
    if cname == 'artim_next_to_other_association':
        return 'association A in %s, clock advanced by %d s after association B was %s: A must be idle and closed iff ' \
               'more than 10 s have passed' % (famv['a_state'], args['dt'], 'served before A connected' if args['b_first']
                                                else 'served while A was waiting')
    if cname in ('disconnect_after_prefix', 'disconnect_after_prefix_segmented'):   # (the explanation re-runs without the extra cut)
        name, turn, p = famv['conv'], famv['turn'], args['p']
        acc, turns = CORPUS[name]
        cut = []
        for i, t in enumerate(turns):
            if i < turn:
                cut.append(t)
            elif i == turn:
                cut.append(t)
                cut.append((famv.get('how', 'close'), None, t[2]))
            elif t[0] == 'user':
                cut.append(t)
        conv = prov.Conversation(cut, acceptor=acc,
                                 segmenter=lambda i, raw: ([raw[:p]] if p else [None]) if i == turn else pdu_split(raw))
        conv.drop_none = True
    elif cname == 'disconnect_between_local_steps':
        acc, cut = _cut_at_written(famv['conv'], args['g'], famv['how'])
        conv = prov.Conversation(cut, acceptor=acc, segmenter=lambda i, raw: pdu_split(raw))
    elif cname == 'kill_while_silent':
        acc, turns = SILENCE[famv['point']]
        conv = prov.Conversation(turns, acceptor=acc, budget=60)
        conv.tick = args['dt']
        conv.silent = True
        conv.kill_at = args['k']
    elif cname == 'silent_peer':
        acc, turns = SILENCE[famv['point']]
        conv = prov.Conversation(turns, acceptor=acc, budget=60)
        conv.tick = args['dt']
    else:
        acc, turns = CORPUS[famv['conv']]
        conv = prov.Conversation(turns, acceptor=acc, segmenter=lambda i, raw: pdu_split(raw))
        conv.kill_at = args['k']
    tr = conv.run()
    return '%r\nuser informed: %r  armed_at=%r idle_at=%r now=%r' % (tr, user_informed(tr, conv), conv.armed_at,
                                                                  conv.idle_at, conv.clock.now)
