"""C11 -- requester: well-formed proposal, accepted contexts and service look-up agree."""
import warnings
import vt
vt.use_repo()
warnings.simplefilter('ignore')
from vt.api import cond, deep, fam, tier, pick
from vt.harness import assoc as A
from pynetdicom2 import applicationentity, asceprovider, pdu, exceptions, userdataitems as udi
import pydicom.config
pydicom.config.settings.reading_validation_mode = pydicom.config.IGNORE   # UID() regex validation only warns; skip it

ASSUMPTIONS = [
    'application entity = a real applicationentity.AE object without its TCP server part (AEBase.__init__, real '
    'add_scu / add_scp / copy_context_def_list); requesters are built by the real AssociationRequester constructor with '
    'asceprovider.dulprovider replaced by a scripted recorder (no provider thread); the reply is scripted',
    'the SOP-class lists of successive add_* calls are disjoint (each class configured once)',
    'replies are conformant: one presentation-context AC item per proposed context, same ids',
]

POOL = ['1.2.840.10008.5.1.4.1.1.%d' % i for i in range(1, 200)]
TSU = ['1.2.840.10008.1.2', '1.2.840.10008.1.2.1', '1.2.840.10008.1.2.2']
REMOTE = {'aet': 'REMOTE_AE', 'address': 'peer', 'port': 104}


class Svc(object):
    def __init__(self, name):
        self.name = name
        self.sop_classes = []

    def __call__(self, asce, ctx, *a):
        return (self.name, asce, ctx, a)


def new_ae(title, ts, maxlen):
    ae = object.__new__(applicationentity.AE)
    applicationentity.AEBase.__init__(ae, ts, maxlen)
    ae.local_ae = {'address': 'here', 'port': 11112, 'aet': title}
    return ae


def configure(ae, sizes, kinds):
    """sizes[i] classes added by call i; kinds[i]: 0 = add_scu(service, classes), 1 = add_scp(service)."""
    pos = 0
    classes = []
    for n, kind in zip(sizes, kinds):
        cl = POOL[pos:pos + n]
        pos += n
        svc = Svc('svc%d' % len(classes))
        if kind == 0:
            ae.add_scu(svc, cl)
        else:
            svc.sop_classes = cl
            ae.add_scp(svc)
        classes.append((cl, kind, svc))
    return classes


def proposal_ok(rq, ae, classes, maxlen):
    if getattr(rq, 'pdu_type', None) != 1:
        return False
    if rq.called_ae_title != REMOTE['aet'] or rq.calling_ae_title != ae.local_ae['aet']:
        return False
    items = rq.variable_items
    want = [c for cl, kind, svc in classes for c in cl]
    if len(items) != len(want) + 2:
        return False
    if getattr(items[0], 'item_type', None) != 0x10 or items[0].context_name != A.APP_CTX:
        return False
    if A.find_maxlen(rq) != maxlen:
        return False
    seen_ids = []
    seen_cls = []
    for it in items[1:-1]:
        if getattr(it, 'item_type', None) != 0x20:
            return False
        cid = it.context_id
        if not (1 <= cid <= 255) or cid % 2 != 1 or cid in seen_ids:
            return False
        seen_ids.append(cid)
        name = str(it.abs_sub_item.name)
        if name in seen_cls or name not in want:
            return False
        seen_cls.append(name)
        tss = sorted(str(t.name) for t in it.ts_sub_items)
        if tss != sorted(str(t) for t in ae.supported_ts):
            return False
    # the PDU must be encodable as it stands
    try:
        raw = rq.encode()
    except Exception:
        return False
    return len(raw) == rq.total_length() and len(seen_cls) == len(want)


PEER_MAX = [16384]          # maximum length the scripted peer announces in its reply (set by a condition)


def reply_for(rq, results, tsi, order=None):
    """order: permutation of the result items (PS3.8 ties results to proposals by context id, not by position)"""
    items = [pdu.ApplicationContextItem(A.APP_CTX)]
    acs = []
    for i, it in enumerate(rq.variable_items[1:-1]):
        r = results[i % len(results)]
        acs.append(pdu.PresentationContextItemAC(it.context_id, r,
                                                 pdu.TransferSyntaxSubItem(TSU[tsi[i % len(tsi)]] if r == 0 else '')))
    if order is not None:
        acs = [acs[j] for j in order if j < len(acs)]
    items += acs
    items.append(A.user_info(PEER_MAX[0]))
    return pdu.AAssociateAcPDU(rq.called_ae_title, rq.calling_ae_title, items)


def run_request(ae, mx, results, tsi, order=None):
    A.patch_provider([])
    rqr = asceprovider.AssociationRequester(ae, mx, REMOTE)     # the real constructor; provider = scripted recorder
    state = {}

    def receive(timeout):
        # the reply is derived from the proposal the requester has just sent
        state['rq'] = rqr.dul.sent[0]
        return reply_for(state['rq'], results, tsi, order)
    rqr.dul.receive = receive
    rqr.request()
    return rqr, state['rq']


def usable_ok(rqr, rq, classes, results, tsi):
    """usable contexts = accepted among proposed, with the peer's transfer syntax; get_scu agrees"""
    ok = True
    idx = 0
    n_acc = 0
    for cl, kind, svc in classes:
        for c in cl:
            it = rq.variable_items[1 + idx]
            r = results[idx % len(results)]
            ts = TSU[tsi[idx % len(tsi)]]
            idx += 1
            if r == 0:
                n_acc += 1
                ctx = rqr.accepted_contexts.get(it.context_id)
                ok = ok and ctx is not None and str(ctx.sop_class) == c and str(ctx.supported_ts) == ts \
                    and ctx.id == it.context_id
            else:
                ok = ok and it.context_id not in rqr.accepted_contexts
            if kind == 0:
                try:
                    f = rqr.get_scu(c)
                    got = f('x')
                    usable = True
                except exceptions.ClassNotSupportedError:
                    usable = False
                ok = ok and usable == (r == 0)
                if usable:
                    name, asce, ctx, a = got
                    ok = ok and name == svc.name and asce is rqr and ctx.id == it.context_id \
                        and str(ctx.sop_class) == c and str(ctx.supported_ts) == ts and a == ('x',)
    ok = ok and len(rqr.accepted_contexts) == n_acc
    # a class that was never configured cannot be obtained
    try:
        rqr.get_scu('1.2.3.4.5')
        ok = False
    except exceptions.ClassNotSupportedError:
        pass
    return ok, n_acc


@cond(bounds='three configuration calls whose kinds (add_scu with a class list / add_scp of a service) are fixed per '
             'instance (8 instances); SOP-class list size of each call symbolic 0..2 (quick) / 0..3 (thorough), number '
             'of supported transfer syntaxes 1..3 symbolic, configured maximum length symbolic in [7, 2^32); the peer '
             'accepts everything', family={'kinds': list(range(8))}, timeout=180, thorough_timeout=900)
def proposal_wellformed(n0: int, n1: int, n2: int, nts: int, mx: int) -> bool:
    """
    pre: 0 <= n0 <= _nm() and 0 <= n1 <= _nm() and 0 <= n2 <= _nm() and 1 <= nts <= 3 and 7 <= mx <= 0xFFFFFFFF
    post: _
    """
    n0, n1, n2, nts = pick(n0, 0, 3), pick(n1, 0, 3), pick(n2, 0, 3), pick(nts, 1, 3)
    ae = new_ae('LOCAL_AE', TSU[:nts], mx)
    kinds = [(fam('kinds') >> i) & 1 for i in range(3)]
    classes = configure(ae, [n0, n1, n2], kinds)
    rqr, rq = run_request(ae, mx, (0,), (nts - 1,))
    ok = proposal_ok(rq, ae, classes, mx) and rqr.association_established
    ok2, n_acc = usable_ok(rqr, rq, classes, (0,), (nts - 1,))
    ok = ok and ok2 and n_acc == n0 + n1 + n2
    deep(ok and n0 == 2 and n1 == 0 and n2 == 1 and nts == 2)
    return ok


@cond(bounds='fixed configuration add_scu([c1, c2]) + add_scp([c3]) + add_scu([c4]); reply: result of the first context '
             'symbolic 0..4, of the others symbolic in {0, 3} / {0, 1} / {0, 4}; transfer syntax chosen by the peer '
             'symbolic per context (universe of 2)', timeout=240)
def reply_processing(r0: int, a1: bool, a2: bool, a3: bool, t0: int, t1: int, t2: int, t3: int) -> bool:
    """
    pre: 0 <= r0 <= 4 and 0 <= t0 <= 1 and 0 <= t1 <= 1 and 0 <= t2 <= 1 and 0 <= t3 <= 1
    post: _
    """
    ae = new_ae('LOCAL_AE', TSU[:2], 16384)
    classes = configure(ae, [2, 1, 1], [0, 1, 0])
    results = (pick(r0, 0, 4), 0 if a1 else 3, 0 if a2 else 1, 0 if a3 else 4)
    tsi = (pick(t0, 0, 1), pick(t1, 0, 1), pick(t2, 0, 1), pick(t3, 0, 1))
    rqr, rq = run_request(ae, 16384, results, tsi)
    ok = proposal_ok(rq, ae, classes, 16384)
    ok2, n_acc = usable_ok(rqr, rq, classes, results, tsi)
    ok = ok and ok2
    deep(ok and n_acc == 2 and r0 == 2)
    return ok


@cond(bounds='two associations in a row requested by one entity (fixed configuration add_scu([c1, c2])): in the first '
             'the peer accepts both contexts, in the second the results are symbolic (0..4 for c1, accept / reject for '
             'c2) - what is usable in the second association follows from the second reply only', timeout=240)
def reply_sequence(r0: int, a1: bool, t0: int, t1: int) -> bool:
    """
    pre: 0 <= r0 <= 4 and 0 <= t0 <= 1 and 0 <= t1 <= 1
    post: _
    """
    ae = new_ae('LOCAL_AE', TSU[:2], 16384)
    classes = configure(ae, [2], [0])
    first, rq1 = run_request(ae, 16384, (0, 0), (1, 0))
    ok1, n1 = usable_ok(first, rq1, classes, (0, 0), (1, 0))
    results = (pick(r0, 0, 4), 0 if a1 else 2)
    tsi = (pick(t0, 0, 1), pick(t1, 0, 1))
    second, rq2 = run_request(ae, 16384, results, tsi)
    ok2, n2 = usable_ok(second, rq2, classes, results, tsi)
    ok = ok1 and n1 == 2 and ok2 and proposal_ok(rq2, ae, classes, 16384)
    deep(ok and n2 == 0)
    return ok


import itertools
PERMS = list(itertools.permutations(range(4)))


@cond(bounds='fixed configuration of four classes (add_scu([c1, c2]) + add_scp([c3]) + add_scu([c4])); the peer answers the '
             'four contexts in ANY order (symbolic index over the 24 permutations of its result items - results belong '
             'to proposals by context id), results accept / reject symbolic per context, transfer syntax symbolic',
      timeout=300)
def reply_reordered(perm: int, a0: bool, a1: bool, a2: bool, a3: bool, t0: int, t1: int) -> bool:
    """
    pre: 0 <= perm < 24 and 0 <= t0 <= 1 and 0 <= t1 <= 1
    post: _
    """
    ae = new_ae('LOCAL_AE', TSU[:2], 16384)
    classes = configure(ae, [2, 1, 1], [0, 1, 0])
    results = (0 if a0 else 3, 0 if a1 else 1, 0 if a2 else 4, 0 if a3 else 2)
    tsi = (pick(t0, 0, 1), pick(t1, 0, 1), 1 - pick(t0, 0, 1), 0)
    order = PERMS[pick(perm, 0, 23)]
    rqr, rq = run_request(ae, 16384, results, tsi, order)
    ok, n_acc = usable_ok(rqr, rq, classes, results, tsi)
    deep(ok and n_acc == 2 and perm == 23)
    return ok


@cond(bounds='the SAME requester object asks again after a refusal: first request answered with A-ASSOCIATE-RJ (result / '
             'source / reason symbolic), second request answered with an accept whose per-context results are symbolic: '
             'the second proposal is as well-formed as the first and what is usable follows from the second reply',
      timeout=240)
def request_again(res: int, src: int, rsn: int, a0: bool, a1: bool, t0: int) -> bool:
    """
    pre: 1 <= res <= 2 and 1 <= src <= 3 and 0 <= rsn <= 255 and 0 <= t0 <= 1
    post: _
    """
    ae = new_ae('LOCAL_AE', TSU[:2], 16384)
    classes = configure(ae, [2, 1], [0, 0])
    A.patch_provider([])
    rqr = asceprovider.AssociationRequester(ae, 16384, REMOTE)
    results = (0 if a0 else 3, 0 if a1 else 1, 0)
    tsi = (pick(t0, 0, 1), 1, 0)
    state = {'n': 0}

    def receive(timeout):
        state['n'] += 1
        state['rq%d' % state['n']] = rqr.dul.sent[-1]
        if state['n'] == 1:
            return pdu.AAssociateRjPDU(res, src, rsn)
        return reply_for(rqr.dul.sent[-1], results, tsi)
    rqr.dul.receive = receive
    refused = False
    try:
        rqr.request()
    except exceptions.AssociationRejectedError as e:
        refused = (e.result, e.source, e.diagnostic) == (res, src, rsn)
    ok = refused and len(rqr.dul.sent) == 1 and not rqr.accepted_contexts
    rqr.request()
    ok = ok and len(rqr.dul.sent) == 2 and state['n'] == 2
    ok = ok and proposal_ok(state['rq1'], ae, classes, 16384) and proposal_ok(state['rq2'], ae, classes, 16384)
    ok = ok and state['rq1'].encode() == state['rq2'].encode()
    ok2, n_acc = usable_ok(rqr, state['rq2'], classes, results, tsi)
    ok = ok and ok2
    deep(ok and n_acc == 2)
    return ok


@cond(bounds='the peer\'s reply announces maximum length 0 (no limit), 1, 7, 16383, 16384, 16385, 2^32-1 (symbolic '
             'selector; configured maximum 16384) and accepts / rejects two contexts (symbolic): usable contexts and '
             'service look-up follow from the reply whatever the announced length; negotiated sending limit = announced '
             'value unless it is 0 or larger than the configured one', timeout=240)
def reply_peer_maximum(mi: int, a0: bool, a1: bool, t0: int) -> bool:
    """
    pre: 0 <= mi <= 6 and 0 <= t0 <= 1
    post: _
    """
    pm = (0, 1, 7, 16383, 16384, 16385, 0xFFFFFFFF)[pick(mi, 0, 6)]
    ae = new_ae('LOCAL_AE', TSU[:2], 16384)
    classes = configure(ae, [2], [0])
    results = (0 if a0 else 3, 0 if a1 else 1)
    tsi = (pick(t0, 0, 1), 1)
    PEER_MAX[0] = pm
    try:
        rqr, rq = run_request(ae, 16384, results, tsi)
    finally:
        PEER_MAX[0] = 16384
    ok, n_acc = usable_ok(rqr, rq, classes, results, tsi)
    ok = ok and rqr.max_pdu_length == (pm if 0 < pm < 16384 else 16384)
    deep(ok and pm == 0 and n_acc == 2)
    return ok


@cond(bounds='the SAME SOP class configured twice (as SCU by add_scu and as SCP by add_scp, next to a second SCU class): it is '
             'proposed on two contexts; the peer\'s result for each of the three contexts is symbolic over 0..4 and its '
             'result items come in any of the 6 orders (symbolic): usable contexts are exactly the accepted ones, and a '
             'service for the class can be obtained iff at least one of ITS contexts was accepted - bound to one of '
             'those', timeout=300)
def reply_same_class_twice(r0: int, r1: int, r2: int, perm: int, t0: int) -> bool:
    """
    pre: 0 <= r0 <= 4 and 0 <= r1 <= 4 and 0 <= r2 <= 4 and 0 <= perm <= 5 and 0 <= t0 <= 1
    post: _
    """
    ae = new_ae('LOCAL_AE', TSU[:2], 16384)
    c1, c2 = POOL[0], POOL[1]
    s_scu, s_scp, s_other = Svc('as_scu'), Svc('as_scp'), Svc('other')
    ae.add_scu(s_scu, [c1])
    s_scp.sop_classes = [c1]
    ae.add_scp(s_scp)
    ae.add_scu(s_other, [c2])
    results = (pick(r0, 0, 4), pick(r1, 0, 4), pick(r2, 0, 4))
    tsi = (pick(t0, 0, 1), 1 - pick(t0, 0, 1), 0)
    order = list(itertools.permutations(range(3)))[pick(perm, 0, 5)]
    rqr, rq = run_request(ae, 16384, results, tsi, order)
    ctxs = rq.variable_items[1:-1]
    ok = len(ctxs) == 3 and [str(i.abs_sub_item.name) for i in ctxs] == [c1, c1, c2] \
        and len(set(i.context_id for i in ctxs)) == 3
    if not ok:
        return False
    accepted = [i.context_id for i, r in zip(ctxs, results) if r == 0]
    ok = sorted(rqr.accepted_contexts) == sorted(accepted)
    for cls, ids in ((c1, [ctxs[0].context_id, ctxs[1].context_id]), (c2, [ctxs[2].context_id])):
        good = [i for i in ids if i in accepted]
        try:
            name, asce, ctx, a = rqr.get_scu(cls)('x')
            ok = ok and bool(good) and ctx.id in good and str(ctx.sop_class) == cls \
                and str(ctx.supported_ts) == TSU[tsi[[i.context_id for i in ctxs].index(ctx.id)]]
        except exceptions.ClassNotSupportedError:
            ok = ok and not good
    deep(ok and r0 == 0 and r1 == 3 and perm == 0)
    return ok


def proposal_per_class_ok(rq, want):
    """want: list of (sop class, sorted transfer syntaxes) in configuration order"""
    items = rq.variable_items[1:-1]
    if len(items) != len(want):
        return False
    got = sorted((str(it.abs_sub_item.name), sorted(str(t.name) for t in it.ts_sub_items)) for it in items)
    return got == sorted((c, sorted(t)) for c, t in want)


@cond(bounds='classes configured with DIFFERENT transfer-syntax sets (the entity\'s supported syntaxes are changed between '
             'add_scu calls; each context definition captures them when it is made): 3 calls, the syntax set of each '
             'chosen by a symbolic selector over 4 subsets of 3 syntaxes: every class is proposed with the syntaxes it '
             'was configured with, and what the peer accepts is bound to a syntax proposed for that class',
      timeout=240)
def proposal_mixed_syntaxes(s0: int, s1: int, s2: int) -> bool:
    """
    pre: 0 <= s0 <= 3 and 0 <= s1 <= 3 and 0 <= s2 <= 3
    post: _
    """
    SETS = [[TSU[0]], [TSU[1]], [TSU[0], TSU[2]], [TSU[2], TSU[1], TSU[0]]]
    sel = [pick(x, 0, 3) for x in (s0, s1, s2)]
    ae = new_ae('LOCAL_AE', SETS[sel[0]], 16384)
    want = []
    for i, si in enumerate(sel):
        ae.supported_ts = frozenset(SETS[si])
        cl = POOL[2 * i:2 * i + 2]
        ae.add_scu(Svc('svc%d' % i), cl)
        want += [(c, SETS[si]) for c in cl]
    A.patch_provider([])
    rqr = asceprovider.AssociationRequester(ae, 16384, REMOTE)
    state = {}

    def receive(timeout):
        state['rq'] = rq = rqr.dul.sent[0]
        items = [pdu.ApplicationContextItem(A.APP_CTX)]
        for it in rq.variable_items[1:-1]:
            # the peer picks the LAST syntax proposed for each context
            items.append(pdu.PresentationContextItemAC(it.context_id, 0,
                                                       pdu.TransferSyntaxSubItem(str(it.ts_sub_items[-1].name))))
        items.append(A.user_info(16384))
        return pdu.AAssociateAcPDU(rq.called_ae_title, rq.calling_ae_title, items)
    rqr.dul.receive = receive
    rqr.request()
    ok = proposal_per_class_ok(state['rq'], want)
    for c, tss in want:
        ctx = [v for v in rqr.accepted_contexts.values() if str(v.sop_class) == c]
        ok = ok and len(ctx) == 1 and str(ctx[0].supported_ts) in tss
    deep(ok and sel[0] != sel[1] and sel[1] != sel[2])
    return ok


def _nm():
    return 3 if tier() == 'thorough' else 2


def excluded(*args):
    from vt import api
    return api.excluded(globals(), *args)


def kf_over_128_classes(n, scp):
    """known finding D14: more than 128 configured classes cannot get distinct odd ids <= 255"""
    return n > 128


@cond(bounds='one configuration call with n SOP classes, n symbolic in 124..132 (the 128-class edge), as add_scu or '
             'add_scp: ids distinct, odd, within 1..255, PDU encodable', timeout=300)
def propose_many(n: int, scp: bool) -> bool:
    """
    pre: 124 <= n <= 132
    pre: not excluded(n, scp)
    post: _
    """
    n = pick(n, 124, 132)
    ae = new_ae('LOCAL_AE', TSU[:1], 16384)
    classes = configure(ae, [n], [1 if scp else 0])
    A.patch_provider([])
    rqr = asceprovider.AssociationRequester(ae, 16384, REMOTE)
    try:
        rqr._request(ae.local_ae, REMOTE, users_pdu=[])
    except exceptions.DCMTimeoutError:
        pass                                  # no reply scripted: only the proposal is of interest
    rq = rqr.dul.sent[0]
    ok = proposal_ok(rq, ae, classes, 16384)
    deep(ok and n == 128)
    return ok


def explain(cname, args, famv):
    if cname == 'propose_many':
        ae = new_ae('LOCAL_AE', TSU[:1], 16384)
        configure(ae, [args['n']], [1 if args['scp'] else 0])
        ids = sorted(ae.context_def_list)
        return '%d classes -> presentation context ids %d..%d (must be odd, distinct, <= 255)' % (
            args['n'], ids[0], ids[-1])
    return ''
