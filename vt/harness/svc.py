"""Service-level harness support: an association as seen by the callables of sopclass.py.

RecAssoc is a real asceprovider.Association (real send -> set_length -> encode) whose DUL provider is replaced by a
recorder.  The provider thread normally drains the encode() generator *later*; `lazy=True` models that legal
schedule (everything queued is encoded only when the harness asks), `lazy=False` drains at once.
Responses are read back from the bytes by the independent element reader vt/refs/ivrle.py.
"""
import collections

import vt
vt.use_repo()
from vt.refs import ivrle
from pynetdicom2 import asceprovider, exceptions


class QueueDul(object):
    def __init__(self, lazy=False):
        self.lazy = lazy
        self.queued = []          # generators not drained yet
        self.pdus = []            # list of (list of P-DATA-TF PDUs) per send, in send order
        self.other = []           # non-generator primitives (release / abort PDUs)
        self.max_pdu_length = 65536   # the real provider keeps the LOCAL receive maximum, whatever was negotiated

    def send(self, x):
        if hasattr(x, 'pdu_type'):
            self.other.append(x)
            return
        if self.lazy:
            self.queued.append(x)
        else:
            self.pdus.append(list(x))

    def drain(self):
        for g in self.queued:
            self.pdus.append(list(g))
        self.queued = []

    def stop(self):
        return True

    def kill(self):
        pass


class Sent(object):
    """One transmitted DIMSE message, as read back from the P-DATA-TF PDUs."""

    def __init__(self, pdus):
        cmd, data = [], []
        self.context_ids = []
        self.wellformed = True
        for p in pdus:
            for v in p.data_value_items:
                self.context_ids.append(v.context_id)
                hdr = v.data_value[0]
                if hdr in (1, 3):
                    cmd.append(v.data_value[1:])
                elif hdr in (0, 2):
                    data.append(v.data_value[1:])
                else:
                    self.wellformed = False
        self.command_raw = b''.join(cmd)
        self.data = b''.join(data) if data else None
        self.elems = ivrle.parse(self.command_raw)
        if self.elems is None:
            self.wellformed = False
            self.elems = []

    def us(self, element):
        v = ivrle.find(self.elems, 0, element)
        return None if v is None else ivrle.us(v)

    def text(self, element):
        """UI/AE value with the padding removed, None if absent or empty."""
        v = ivrle.find(self.elems, 0, element)
        if v is None or len(v) == 0:
            return None
        s = v.decode('ascii')
        return s.rstrip('\0 ')

    @property
    def command_field(self):
        return self.us(0x0100)

    @property
    def status(self):
        return self.us(0x0900)

    @property
    def responded_to(self):
        return self.us(0x0120)

    @property
    def message_id(self):
        return self.us(0x0110)

    @property
    def sop_class(self):
        return self.text(0x0002)

    @property
    def sop_instance(self):
        return self.text(0x1000)

    def one_context(self):
        return self.context_ids[0] if self.context_ids and len(set(self.context_ids)) == 1 else None


class RecAssoc(asceprovider.Association):
    """Real Association.send on a recording provider; receive() replays a script of (message, context id)."""

    def __init__(self, ae, max_pdu_length=16384, script=(), lazy=False):
        self.ae = ae
        self.dul = QueueDul(lazy)
        self.association_established = True
        self.max_pdu_length = max_pdu_length
        self.accepted_contexts = {}
        self.script = collections.deque(script)
        self.remote_ae = 'REMOTE_AE'
        self.received = 0

    def receive(self):
        if not self.script:
            raise exceptions.DCMTimeoutError()
        self.received += 1
        return self.script.popleft()

    def sent(self):
        self.dul.drain()
        return [Sent(p) for p in self.dul.pdus]
