"""C20 -- concurrent associations on one application entity are isolated (coarse interleavings only)."""
import warnings
import vt
vt.use_repo()
warnings.simplefilter('ignore')
import pydicom
from vt import api
from vt.api import cond, deep, fam, tier, pick
from vt.harness import assoc as A
from vt.harness.svc import Sent
from vt.harness.pdus import mkstream
from pynetdicom2 import applicationentity, asceprovider, sopclass, dimsemessages as dm, pdu, exceptions, statuses
import pynetdicom2

ASSUMPTIONS = [
    '2-safety by interleaving: two acceptor-side associations share ONE real AE object (real add_scp, real '
    'verification_scp / storage_scp); each is a real AssociationAcceptor built by its real constructor (only the '
    'socketserver base-class constructor, which would run the whole association at once, is replaced) over its own '
    'scripted provider; their steps (construct, establish, serve one message, ...) are interleaved according to a '
    'symbolic schedule word and every association\'s observable trace is compared with its trace when run alone',
    'claim strength: interleavings at the granularity of association steps and service calls. OUTSIDE the claim: '
    'byte-code level races between real OS threads (the entity\'s dict mutated during copy.copy, the GIL\'s scheduling), '
    'real TCP - a Python symbolic executor cannot make the thread schedule a solver variable',
]

VERIF = '1.2.840.10008.1.1'
CT = '1.2.840.10008.5.1.4.1.1.2'
MR = '1.2.840.10008.5.1.4.1.1.4'
TS = ['1.2.840.10008.1.2', '1.2.840.10008.1.2.1']


class _SocketServerStub(object):
    """asceprovider.socketserver as seen by AssociationAcceptor.__init__: the base-class constructor only records its
    arguments (the real one runs setup/handle/finish, i.e. the whole association, inside the constructor)"""
    class StreamRequestHandler(object):
        def __init__(self, request, client_address, server):
            self.request, self.client_address, self.server = request, client_address, server


class Entity(applicationentity.AE):
    """a real AE (configuration through the real add_scp) with recording handlers"""

    def __init__(self):
        applicationentity.AEBase.__init__(self, TS, 16384)
        self.log = []
        self.add_scp(sopclass.verification_scp)
        st = sopclass.storage_scp
        self.supported_scp.update({CT: st, MR: st})
        self.store_in_file.update([CT, MR])

    def on_receive_echo(self, ctx):
        self.log.append(('echo', ctx.id, str(ctx.supported_ts)))
        return statuses.SUCCESS

    def on_receive_store(self, ctx, ds):
        data = ds.read()
        self.log.append(('store', ctx.id, str(ctx.sop_class), str(ctx.supported_ts), data))
        # the status depends on the payload: cross-talk between associations would show up in the responses
        return 0xB000 + (data[0] % 8) if data else 0x0110


def request(name, maxlen, want_ct, want_mr, ts_first):
    tss = [TS[0], TS[1]] if ts_first == 0 else [TS[1], TS[0]]
    items = [pdu.ApplicationContextItem(A.APP_CTX),
             pdu.PresentationContextItemRQ(1, pdu.AbstractSyntaxSubItem(VERIF), [pdu.TransferSyntaxSubItem(TS[0])])]
    if want_ct:
        items.append(pdu.PresentationContextItemRQ(3, pdu.AbstractSyntaxSubItem(CT),
                                                   [pdu.TransferSyntaxSubItem(t) for t in tss]))
    if want_mr:
        items.append(pdu.PresentationContextItemRQ(5, pdu.AbstractSyntaxSubItem(MR),
                                                   [pdu.TransferSyntaxSubItem(tss[0])]))
    items.append(A.user_info(maxlen))
    return pdu.AAssociateRqPDU('SERVER', name, items)


def echo(mid):
    m = dm.CEchoRQMessage()
    m.message_id = mid
    m.sop_class_uid = VERIF
    return (m, 1)


def store(mid, cid, sop, payload):
    m = dm.CStoreRQMessage()
    m.message_id = mid
    m.sop_class_uid = sop
    m.affected_sop_instance_uid = '1.2.3.%d' % cid
    m.priority = 0
    m.data_set = mkstream(payload)
    return (m, cid)


class Client(object):
    """one association: its parameters, its steps, its observable trace"""

    def __init__(self, name, maxlen, want_ct, want_mr, ts_first, mid, payload, aborts):
        self.name, self.maxlen = name, maxlen
        self.rq = request(name, maxlen, want_ct, want_mr, ts_first)
        self.msgs = [echo(mid)]
        if want_ct:
            self.msgs.append(store(mid + 1, 3, CT, payload))
        if want_mr:
            self.msgs.append(store(mid + 2, 5, MR, payload[::-1]))
        self.aborts = aborts
        self.acc = None
        self.step_no = 0
        self.errors = []
        self.done = False

    def steps_total(self):
        return 2 + len(self.msgs)

    def step(self, ae):
        """construct / establish / serve the next message"""
        i = self.step_no
        self.step_no += 1
        if i == 0:
            A.patch_provider([])
            asceprovider.socketserver = _SocketServerStub
            self.acc = asceprovider.AssociationAcceptor(A.FakeRequest(), (self.name, 1), ae, 16384)
            return
        dul = self.acc.dul
        if i == 1:
            dul.script.append(self.rq)
            self.acc._establish()
            return
        k = i - 2
        if self.aborts and k == 1:
            dul.script.append(pdu.AAbortPDU(0, 0))
        else:
            dul.script.append(self.msgs[k])
        try:
            self.acc._loop()
        except exceptions.DCMTimeoutError:
            pass                                    # nothing more to read right now
        except exceptions.AssociationAbortedError:
            self.errors.append('aborted')
            self.acc.kill()
            self.done = True
        except exceptions.ClassNotSupportedError:
            self.errors.append('class not supported')
        if self.step_no >= self.steps_total():
            self.done = True

    def trace(self):
        acc = self.acc
        out = []
        for x in acc.dul.sent:
            if hasattr(x, 'pdu_type'):
                out.append(('pdu', x.pdu_type, x.encode()))
            else:
                s = Sent(list(x))
                out.append(('dimse', s.one_context(), s.command_field, s.responded_to, s.status, s.sop_class,
                            s.sop_instance))
        ctxs = sorted((k, str(v.sop_class), str(v.supported_ts)) for k, v in acc.accepted_contexts.items())
        routes = sorted((k, str(v[1]), str(v[2])) for k, v in acc.sop_classes_as_scp.items())
        return (out, ctxs, routes, acc.max_pdu_length, self.errors, str(acc.remote_ae))


_ALONE = {}


def run_alone(params):
    """trace of one association alone on a fresh entity (a function of concrete parameters: memoised per process)"""
    key = repr(params)
    if key not in _ALONE:
        _ALONE[key] = _run_alone(params)
    return _ALONE[key]


def _run_alone(params):
    ae = Entity()
    c = Client(*params)
    while not c.done:
        c.step(ae)
    mine = [e for e in ae.log]
    return c.trace(), mine


SCHEDULES = [0b00000000, 0b11111111, 0b01010101, 0b10101010, 0b00110011, 0b11001100, 0b00001111, 0b01101001]


def params_of(name, mx, ct, mr, tsf, mid, payload, aborts):
    return (name, mx, ct, mr, tsf, mid, payload, aborts)


def _interleaved_concrete(sched, mxa, a_ct, a_tsf, b_aborts, b_ct, b_mr):
    mida, midb, pa, pb = 100, 200, b'\x11', b'\x26'        # distinct per association, concrete
    pa_ = params_of('CLIENT_A', mxa, a_ct, False, 1 if a_tsf else 0, mida, pa, False)
    pb_ = params_of('CLIENT_B', 4096, b_ct, b_mr, 0, midb, pb, b_aborts)
    alone_a, log_a = run_alone(pa_)
    alone_b, log_b = run_alone(pb_)
    ae = Entity()
    ca, cb = Client(*pa_), Client(*pb_)
    bit = 0
    while not (ca.done and cb.done):
        pick_b = (sched >> (bit % 8)) & 1
        bit += 1
        c = cb if (pick_b and not cb.done) or ca.done else ca
        c.step(ae)
    ok = ca.trace() == alone_a and cb.trace() == alone_b
    # every handler call belongs to exactly one association and is the one that association causes alone
    ok = ok and len(ae.log) == len(log_a) + len(log_b)
    for e in log_a + log_b:
        ok = ok and e in ae.log
    return ok, len(ae.log)


@cond(bounds='two associations on one entity: each with its own requested maximum length (A: 7 / 16384 / 2^32-1 by symbolic choice, B: 4096), '
             'accepted-context subset (CT / MR storage proposed or not: symbolic), transfer-syntax order (symbolic), '
             'own message ids and payload; B may abort after its first message '
             '(symbolic); their steps are interleaved by a schedule word of 8 bits (quick: one instance per word, 3 words; thorough: the word is symbolic over all 256 values)',
      family=lambda t: [dict(b_ct=b[0], b_mr=b[1], sched=s_)
                        for b in (((0, 0), (1, 0), (1, 1)) if t == 'thorough' else ((1, 0), (1, 1)))
                        for s_ in ((None,) if t == 'thorough' else (SCHEDULES[2], SCHEDULES[5], SCHEDULES[7]))],
      timeout=300, thorough_timeout=1800)
def interleaved(mxi: int, a_ct: bool, a_tsf: bool, b_aborts: bool, sw: int) -> bool:
    """
    pre: 0 <= mxi <= 2 and 0 <= sw <= 255 and (fam('sched') is None or sw == 0)
    post: _
    """
    sched = fam('sched') if fam('sched') is not None else pick(sw, 0, 255)
    mxa = (7, 16384, 0xFFFFFFFF)[pick(mxi, 0, 2)]
    a_ct, a_tsf, b_aborts = bool(pick(int(a_ct), 0, 1)), bool(pick(int(a_tsf), 0, 1)), bool(pick(int(b_aborts), 0, 1))
    from vt import sim
    with sim._no_tracing():                 # concrete from here on (the solver chose the parameters)
        ok, nlog = _interleaved_concrete(sched, mxa, a_ct, a_tsf, b_aborts, bool(fam('b_ct')), bool(fam('b_mr')))
    deep(ok and a_ct and b_aborts and nlog >= 3)
    return ok




# ------------------------------------------------------------------------------------------------
# the same, with REAL providers: octets in, octets out
# ------------------------------------------------------------------------------------------------

class _Tempfile(object):
    @staticmethod
    def TemporaryFile(*a, **k):
        return pdu.cStringIO()


def wire_of(msg_cid, maxlen=16384):
    m, cid = msg_cid
    ds = m.data_set
    if ds is not None and not isinstance(ds, bytes):
        m.data_set = ds.getvalue()
    m.set_length()
    return b''.join(p.encode() for p in m.encode(cid, maxlen))


class LiveClient(object):
    """one association over a real stepped provider: its peer's octets, its steps, its observable trace"""

    def __init__(self, name, maxlen, ts_first, mid, payload, ending):
        self.name = name
        self.rq = request(name, maxlen, True, False, ts_first).encode()
        self.msgs = [wire_of(echo(mid)), wire_of(store(mid + 1, 3, CT, payload)), wire_of(echo(mid + 2))]
        self.ending = ending                 # 0 nothing, 1 peer sends an unrecognised PDU and keeps the connection
        self.live = None                     # open, 2 peer aborts, 3 peer disconnects
        self.step_no = 0
        self.done = False

    def steps_total(self):
        return 3 + 2 * len(self.msgs) + (1 if self.ending else 0)

    def step(self, ae):
        from vt.harness import live as L
        i = self.step_no
        self.step_no += 1
        if i == 0:
            self.live = L.LiveAcceptor(ae, self.name)
        elif i == 1:
            self.live.deliver(self.rq)
        elif i == 2:
            self.live.establish()
        elif i < 3 + 2 * len(self.msgs):
            k, serve = divmod(i - 3, 2)
            if serve:
                self.live.serve_one()
            else:
                self.live.deliver(self.msgs[k])
        else:
            if self.ending == 1:
                self.live.deliver(b'\x0b\x00\x00\x00\x00\x02\xab\xcd')
            elif self.ending == 2:
                self.live.deliver(pdu.AAbortPDU(0, 0).encode())
            else:
                self.live.peer_closes()
            self.live.serve_one()
        if self.step_no >= self.steps_total():
            self.done = True

    def later(self, mid):
        """after time has passed: the provider thread runs, one more C-ECHO arrives and is served"""
        self.live.pump.run()
        if not self.ending:
            self.live.deliver(wire_of(echo(mid)))
            self.live.serve_one()

    def trace(self):
        lv = self.live
        acc = lv.acc
        ctxs = sorted((k, str(v.sop_class), str(v.supported_ts)) for k, v in acc.accepted_contexts.items())
        dec = sorted((k, str(v.sop_class), str(v.supported_ts)) for k, v in (lv.prov.accepted_contexts or {}).items())
        return (lv.wire(), ctxs, dec, acc.max_pdu_length, lv.errors, lv.pump.err, lv.pump.over_budget, lv.pump.state(),
                lv.prov.timer._start_time is not None, lv.prov.dul_socket is not None, lv.sock.closed)


class LiveEntity(Entity):
    def on_receive_store(self, ctx, ds):
        whole = ds.read()                    # the file the provider wrote: meta header (negotiated syntax) + data set
        self.log.append(('store', ctx.id, str(ctx.sop_class), str(ctx.supported_ts), whole))
        return 0xB000 + (whole[-1] % 8)


def _live_run(pa_, pb_, sched, dt):
    """-> (trace A, trace B, handler log); pb_ None = A alone; pa_ None = B alone"""
    from vt import sim
    from vt.harness import live as L
    clock = sim.SimClock(1000)
    with sim._no_tracing():                  # everything up to here is concrete: run it outside the tracer
        L.install(clock)
        applicationentity.tempfile = _Tempfile
        ae = LiveEntity()
        ca = LiveClient(*pa_) if pa_ else None
        cb = LiveClient(*pb_) if pb_ else None
        bit = 0
        while not ((ca is None or ca.done) and (cb is None or cb.done)):
            pick_b = (sched >> (bit % 8)) & 1
            bit += 1
            if ca is None or ca.done:
                c = cb
            elif cb is None or cb.done:
                c = ca
            else:
                c = cb if pick_b else ca
            c.step(ae)
    clock.now = clock.now + dt               # time passes for everybody
    if cb:
        cb.later(900)
    if ca:
        ca.later(901)
    return (ca.trace() if ca else None), (cb.trace() if cb else None), list(ae.log)


@cond(bounds='two associations on one entity, each a real AssociationAcceptor over its own REAL provider (framing, state '
             'machine, DIMSE decoder, ARTIM timer) stepped in the calling thread; both negotiate CT storage on context '
             'id 3 but with different transfer syntaxes (A: symbolic order, B: the other one) and file-backed '
             'reception; echo, store, echo on each; B ends normally / with an unrecognised PDU and a connection left '
             'open / with an abort / by disconnecting (symbolic); steps interleaved by an 8-bit schedule word (quick: 4 words, one '
             'instance each; thorough: all 256 words, low 4 bits symbolic per instance); then the clock advances by a SYMBOLIC dt in 0..30 s and A serves one more C-ECHO. '
             'Every association must put on the wire, hand to the handler (incl. the file meta header) and keep as '
             'state exactly what it does when it runs alone',
      family=lambda t: [dict(sched=s_) for s_ in (tuple(range(0, 256, 16)) if t == 'thorough' else
                                                  (SCHEDULES[2], SCHEDULES[4], SCHEDULES[6], SCHEDULES[7]))],
      timeout=300, thorough_timeout=1800)
def interleaved_live(a_tsf: bool, ending: int, dt: int, sw: int) -> bool:
    """
    pre: 0 <= ending <= 3 and 0 <= dt <= 30 and 0 <= sw <= 15 and (tier() == 'thorough' or sw == 0)
    post: _
    """
    sched = fam('sched') + (pick(sw, 0, 15) if tier() == 'thorough' else 0)
    ending = pick(ending, 0, 3)
    a_tsf = bool(pick(int(a_tsf), 0, 1))
    pa_ = ('CLIENT_A', 16384, 1 if a_tsf else 0, 100, b'\x11\x12\x13\x14', 0)
    pb_ = ('CLIENT_B', 4096, 0 if a_tsf else 1, 200, b'\x26\x27', ending)
    alone_a, _, log_a = _live_run(pa_, None, 0, dt)
    _, alone_b, log_b = _live_run(None, pb_, 0, dt)
    both_a, both_b, log = _live_run(pa_, pb_, sched, dt)
    ok = both_a == alone_a and both_b == alone_b
    ok = ok and len(log) == len(log_a) + len(log_b)
    for e in log_a + log_b:
        ok = ok and e in log
    # sanity of the alone runs themselves: both stores were delivered with the association's own syntax
    ok = ok and len(log_a) == 4 and len(log_b) == (3 if ending else 4) and alone_a[5] is None
    deep(ok and ending == 1 and dt > 10)
    return ok


@cond(bounds='message ids handed out by the convenience API: n = 1..6 calls (symbolic) in one thread give n distinct values; '
             'a copy of the presentation-context definition list is not affected by a later add_scu with k = 1..3 '
             'classes (symbolic) on the entity', timeout=120)
def ids_and_copies(n: int, k: int) -> bool:
    """
    pre: 1 <= n <= 6 and 1 <= k <= 3
    post: _
    """
    n, k = pick(n, 1, 6), pick(k, 1, 3)
    import threading
    pynetdicom2._tls = threading.local()
    ids = [pynetdicom2._new_msg_id() for _ in range(n)]
    ok = len(set(ids)) == n and all(isinstance(i, int) and 0 < i <= 65535 for i in ids)
    ae = Entity()
    before = ae.copy_context_def_list()
    snapshot = sorted(before)

    class Svc(object):
        sop_classes = []
    ae.add_scu(Svc(), ['1.2.840.10008.5.1.4.1.1.%d' % (20 + i) for i in range(k)])
    ok = ok and sorted(before) == snapshot and len(ae.context_def_list) == len(snapshot) + k
    deep(ok and n == 6 and k == 3)
    return ok


# ------------------------------------------------------------------------------------------------
# requesting several associations at once: two live requesters of ONE entity, interleaved
# ------------------------------------------------------------------------------------------------

def _requester_run(which, sched, b_rejects, ta, tb):
    """two requested associations of one ClientAE (both alive at the same time), steps interleaved by sched; which:
    'both' / 'a' / 'b'.  -> per association (proposal octets, usable contexts, service look-ups, echo exchange)"""
    from vt import sim
    from vt.harness import live as L
    from pynetdicom2 import applicationentity as AEm
    L.install(sim.SimClock(1000))
    ae = AEm.ClientAE('LOCAL', TS, 16384)
    spy = L.EntityLock()
    ae.lock = spy                    # the entity-wide lock every requester of this entity takes (copy_context_def_list)

    def svc_a(asce, ctx, *a):
        return ('svc', str(ctx.sop_class), ctx.id, str(ctx.supported_ts))
    ae.add_scu(svc_a, [CT, MR])
    ae.add_scu(sopclass.verification_scu)

    def peer(ts_index, rejects_mr):
        def react(new):
            out = []
            for raw in new:
                if raw[0] == 1:
                    rq = pdu.AAssociateRqPDU.decode(raw)
                    items = [pdu.ApplicationContextItem(A.APP_CTX)]
                    for it in rq.variable_items[1:-1]:
                        name = str(it.abs_sub_item.name)
                        rej = rejects_mr and name == MR
                        items.append(pdu.PresentationContextItemAC(
                            it.context_id, 3 if rej else 0, pdu.TransferSyntaxSubItem('' if rej else TS[ts_index])))
                    items.append(A.user_info(8192 if ts_index else 4096))
                    out.append(pdu.AAssociateAcPDU(rq.called_ae_title, rq.calling_ae_title, items).encode())
                elif raw[0] == 4:
                    p = pdu.PDataTfPDU.decode(raw)
                    cid = p.data_value_items[0].context_id
                    m = dm.CEchoRSPMessage()
                    m.message_id_being_responded_to = 77 + ts_index
                    m.sop_class_uid = VERIF
                    m.status = 0
                    m.set_length()
                    out.append(b''.join(x.encode() for x in m.encode(cid, 16384)))
                elif raw[0] == 5:
                    out.append(pdu.AReleaseRpPDU().encode())
            return out
        return react

    class Req(object):
        def __init__(self, name, ts_index, rejects):
            self.name, self.ts_index, self.rejects = name, ts_index, rejects
            self.lr = None
            self.out = []
            self.step_no = 0
            self.done = False

        def step(self):
            i = self.step_no
            self.step_no += 1
            if i == 0:
                self.lr = L.LiveRequester(ae, {'aet': self.name, 'address': 'h', 'port': 104},
                                          peer(self.ts_index, self.rejects))
            elif i == 1:
                self.lr.asce.request()
            elif i == 2:
                for sop in (CT, MR, VERIF):
                    try:
                        f = self.lr.asce.get_scu(sop)
                        self.out.append(('scu', sop, f('x') if sop != VERIF else 'echo-service'))
                    except exceptions.ClassNotSupportedError:
                        self.out.append(('scu', sop, None))
            elif i == 3:
                rq = dm.CEchoRQMessage()
                rq.message_id = 77 + self.ts_index
                rq.sop_class_uid = VERIF
                cid = [k for k, v in self.lr.asce.accepted_contexts.items() if str(v.sop_class) == VERIF][0]
                self.lr.asce.send(rq, cid)
                msg, got_cid = self.lr.asce.receive()
                self.out.append(('echo', got_cid == cid, msg.message_id_being_responded_to))
            else:
                self.lr.asce.release()
                self.done = True

        def trace(self):
            a = self.lr.asce
            ctxs = sorted((k, str(v.sop_class), str(v.supported_ts)) for k, v in a.accepted_contexts.items())
            scu = sorted((str(k), v[0], str(v[1])) for k, v in a.sop_classes_as_scu.items())
            return (self.lr.wire(), ctxs, scu, a.max_pdu_length, self.out, self.lr.pump.err, self.lr.pump.state(),
                    self.lr.sock.closed, list(spy.waits))
    ra = Req('PEER_A', ta, False) if which in ('both', 'a') else None
    rb = Req('PEER_B', tb, b_rejects) if which in ('both', 'b') else None
    bit = 0
    while not ((ra is None or ra.done) and (rb is None or rb.done)):
        pick_b = (sched >> (bit % 8)) & 1
        bit += 1
        if ra is None or ra.done:
            r = rb
        elif rb is None or rb.done:
            r = ra
        else:
            r = rb if pick_b else ra
        r.step()
    return (ra.trace() if ra else None), (rb.trace() if rb else None)


@cond(bounds='REQUESTING several associations at once: two live requesters of one ClientAE (real AssociationRequester over '
             'real stepped providers, scripted peers), both alive at the same time; peer A accepts everything with one '
             'transfer syntax and maximum length, peer B with the other syntax and maximum and (symbolic) rejects one '
             'class; steps (construct, request, look services up, C-ECHO, release) interleaved by an 8-bit schedule word '
             '(symbolic over all 256 values); every association\'s proposal, usable contexts, service look-ups, negotiated '
             'length and exchange equal what they are when it runs alone (quick tier: schedule words 0..63); no requester waits for its '
             'peer while it holds the entity-wide configuration lock that every other association needs (lock stand-in records such waits)',
      family={'b_rejects': [0, 1], 'swap': [0, 1]}, timeout=300, thorough_timeout=900)
def requesters_interleaved(sw: int) -> bool:
    """
    pre: 0 <= sw <= (255 if tier() == 'thorough' else 63)
    post: _
    """
    from vt import sim
    sched = pick(sw, 0, 255)
    b_rejects, swap = bool(fam('b_rejects')), bool(fam('swap'))
    ta, tb = (1, 0) if swap else (0, 1)
    with sim._no_tracing():
        alone_a, _ = _requester_run('a', 0, b_rejects, ta, tb)
        _, alone_b = _requester_run('b', 0, b_rejects, ta, tb)
        both_a, both_b = _requester_run('both', sched, b_rejects, ta, tb)
        ok = both_a == alone_a and both_b == alone_b
        # sanity of the alone runs: A can use all three classes, B all or all but MR; the echo came back
        ok = ok and alone_a[5] is None and alone_b[5] is None and len(alone_a[1]) == 3 \
            and len(alone_b[1]) == (2 if b_rejects else 3) and ('echo', True, 77 + ta) in alone_a[4]
        # no association waits for its peer while holding the lock that every other association of the entity needs
        ok = ok and alone_a[8] == [] and alone_b[8] == [] and both_a[8] == [] and both_b[8] == []
        # requesting an association leaves the process-wide socket defaults alone (they apply to every other socket)
        from pynetdicom2 import fsm as _fsm
        ok = ok and _fsm.socket.getdefaulttimeout() is None
    deep(ok and sched == 0b00010101)
    return ok



def _simultaneous(mid_a, mid_b, first_b):
    """two established acceptor-side associations of one entity receive a C-ECHO-RQ at the same instant: the octets of
    both are readable before either provider thread runs; right after the first thread's read returns, the other
    thread runs (the likeliest pre-emption point).  -> (message ids answered on A, on B)"""
    from vt import sim
    from vt.harness import live as L
    L.install(sim.SimClock(1000))
    ae = LiveEntity()
    la, lb = L.LiveAcceptor(ae, 'CLIENT_A'), L.LiveAcceptor(ae, 'CLIENT_B')
    for lv, nm in ((la, 'CLIENT_A'), (lb, 'CLIENT_B')):
        lv.deliver(request(nm, 16384, False, False, 0).encode())
        lv.establish()
    na, nb = len(la.wire()), len(lb.wire())
    la.sock.inbox.append(wire_of(echo(mid_a)))
    lb.sock.inbox.append(wire_of(echo(mid_b)))
    one, other = (lb, la) if first_b else (la, lb)
    L.StepSocket.io_hook = lambda sock: (other if sock is one.sock else one).pump.run()
    try:
        one.pump.run()
        other.pump.run()
    finally:
        L.StepSocket.io_hook = None
    la.serve_one()
    lb.serve_one()

    def answered(lv, n0):
        out = []
        for raw in lv.wire()[n0:]:
            if raw[0] == 4:
                out.append(Sent([pdu.PDataTfPDU.decode(raw)]).responded_to)
        return out
    return answered(la, na), answered(lb, nb), la.pump.err, lb.pump.err


@cond(bounds='two associations of one entity over REAL providers receive a C-ECHO-RQ at the same instant (message ids from '
             '{1, 0x1111, 65535} x {2, 0x2222, 65534}, symbolic selectors): both requests are readable before either '
             'provider thread runs, and the other thread runs right after the first thread\'s read returns (either '
             'thread first: symbolic); each association answers its own request with its own message id',
      timeout=120)
def simultaneous_reads(ia: int, ib: int, first_b: bool) -> bool:
    """
    pre: 0 <= ia <= 2 and 0 <= ib <= 2
    post: _
    """
    from vt import sim
    mid_a, mid_b = (1, 0x1111, 65535)[pick(ia, 0, 2)], (2, 0x2222, 65534)[pick(ib, 0, 2)]
    first_b = bool(pick(int(first_b), 0, 1))
    with sim._no_tracing():
        ra, rb, ea, eb = _simultaneous(mid_a, mid_b, first_b)
    ok = ra == [mid_a] and rb == [mid_b] and ea is None and eb is None
    deep(ok and first_b and ia == 1)
    return ok


# ------------------------------------------------------------------------------------------------
# message ids under pre-emption: two REAL threads, the switch point inside _new_msg_id chosen by the solver
# ------------------------------------------------------------------------------------------------

_WARM = []


def _preempted_ids(j, k, m_during, m_after, n1=4):
    """Thread T1 makes n1 calls of the real _new_msg_id; inside its call number j (>= 1, counted from 0) it is pre-empted after k byte-code
    instructions; while it is suspended thread T2 makes m_during calls; T1 then runs to completion and T2 makes m_after
    more calls.  -> (ids of T1, ids of T2).  Deterministic: the switch is forced with an opcode-level trace function and
    events, never left to the OS."""
    import sys
    import threading
    code = pynetdicom2._new_msg_id.__code__
    ids1, ids2 = [], []
    paused, resume = threading.Event(), threading.Event()
    go2a, done2a, go2b = threading.Event(), threading.Event(), threading.Event()
    state = {'call': -1, 'ops': 0, 'err': None}

    def local_trace(frame, event, arg):
        if event == 'opcode':
            if state['call'] == j and state['ops'] == k:
                paused.set()
                if not resume.wait(20):
                    state['err'] = 'resume timeout'
            state['ops'] += 1
        return local_trace

    def tracer(frame, event, arg):
        if event == 'call' and frame.f_code is code:
            state['call'] += 1
            # opcode events for every call: CPython 3.12 instruments the code object on the first request, and the frame
            # that is already running does not see it - T1's call 0 is the warm-up, the switch happens in call j >= 1
            frame.f_trace_opcodes = True
            state['ops'] = 0
            return local_trace
        return None

    def t1():
        sys.settrace(tracer)
        try:
            for _ in range(n1):
                ids1.append(pynetdicom2._new_msg_id())
        except Exception as e:             # noqa
            state['err'] = 'T1: %r' % (e,)
        finally:
            sys.settrace(None)
            paused.set()                   # never leave the coordinator waiting

    def t2():
        try:
            if not go2a.wait(20):
                return
            for _ in range(m_during):
                ids2.append(pynetdicom2._new_msg_id())
            done2a.set()
            if not go2b.wait(20):
                return
            for _ in range(m_after):
                ids2.append(pynetdicom2._new_msg_id())
        except Exception as e:             # noqa
            state['err'] = 'T2: %r' % (e,)
            done2a.set()

    if not _WARM:
        # CPython 3.12 instruments a code object for opcode events on first request and the frames of that first traced
        # thread do not see it: one throw-away traced thread per process (its ids are its own; they are not checked)
        def warm():
            sys.settrace(lambda f, e, a: (setattr(f, 'f_trace_opcodes', True), (lambda *x: None))[1]
                         if e == 'call' and f.f_code is code else None)
            try:
                pynetdicom2._new_msg_id()
                pynetdicom2._new_msg_id()
            finally:
                sys.settrace(None)
        w = threading.Thread(target=warm)
        w.start()
        w.join(20)
        _WARM.append(True)
    th1, th2 = threading.Thread(target=t1), threading.Thread(target=t2)
    th2.start()
    th1.start()
    if not paused.wait(20):
        state['err'] = 'T1 never paused / finished'
    go2a.set()
    if not done2a.wait(20):
        state['err'] = 'T2 stuck'
    resume.set()
    th1.join(20)
    go2b.set()
    th2.join(20)
    if state['err'] or th1.is_alive() or th2.is_alive():
        raise api.HarnessUnsupported('pre-emption scaffold: %s' % (state['err'],))
    return ids1, ids2


@cond(bounds='message ids of the convenience API under pre-emption, REAL threads: thread T1 makes 4 calls of _new_msg_id and '
             'is suspended inside its second or third call (symbolic) after k = 0..45 byte-code instructions (symbolic: '
             'every switch point inside the function, also in the middle of a statement); meanwhile thread T2 makes 0..3 '
             'calls (symbolic), T1 resumes, T2 makes 2 more calls; the ids each thread got must be pairwise distinct '
             'integers in 1..65535. The schedule is forced (opcode trace + events), never left to the OS',
      timeout=400)
def ids_under_preemption(j: int, k: int, m: int) -> bool:
    """
    pre: 1 <= j <= 2 and 0 <= k <= 45 and 0 <= m <= 3
    post: _
    """
    from vt import sim
    j, k, m = pick(j, 1, 2), pick(k, 0, 45), pick(m, 0, 3)
    with sim._no_tracing():
        ids1, ids2 = _preempted_ids(j, k, m, 2)
    ok = len(ids1) == 4 and len(ids2) == m + 2
    ok = ok and len(set(ids1)) == len(ids1) and len(set(ids2)) == len(ids2)
    ok = ok and all(type(i) is int and 0 < i <= 65535 for i in ids1 + ids2)
    deep(ok and j == 2 and k == 20 and m == 2)
    return ok


TRACE_FIELDS = ['wire', 'accepted contexts (association)', 'accepted contexts (provider / decoder)', 'max PDU length',
                'errors seen by the acceptor', 'provider loop died', 'loop over budget', 'protocol state', 'ARTIM running',
                'socket held', 'socket closed']


ARRIVED = (0, 1, 5, 6, 7, 100)


@cond(bounds='the accept loop of the serving entity (the ONE thread that admits every new association: what socketserver runs per '
             'connection before the handler thread exists - verify_request): a peer has connected and k octets of its '
             'A-ASSOCIATE-RQ have arrived so far, k from {0, 1, 5, 6, 7, 100} or all of it (symbolic selector), first '
             'octet symbolic; then it stays silent: the connection is admitted without the accept thread reading from it, '
             'blocking on it, writing to it or changing its time-out - a slow or silent peer must not delay the next '
             'association; the octets are all still there for the association\'s own provider', timeout=120)
def accept_loop_never_waits(sel: int, first: int) -> bool:
    """
    pre: 0 <= sel <= 6 and 0 <= first <= 255
    post: _
    """
    from vt import sim
    from vt.harness import live as L
    from vt.harness import prov as P
    rq = P.get_corpus()['acc_echo_release'][1][0][1]
    k = (list(ARRIVED) + [len(rq)])[pick(sel, 0, 6)]
    ae = object.__new__(applicationentity.AE)
    applicationentity.AEBase.__init__(ae, ['1.2.840.10008.1.2'], 16384)
    ae.add_scp(sopclass.verification_scp)
    sock = L.StepSocket()
    arrived = bytes([first]) + rq[1:k] if k else b''
    if arrived:
        sock.inbox.append(arrived)
    outcome = None
    try:
        outcome = ae.verify_request(sock, ('peer', 104))
    except api.Hang as h:
        outcome = 'blocked: %s' % (h,)
    except Exception as e:                                   # noqa
        outcome = 'raised %s' % type(e).__name__
    left = b''.join(sock.inbox)
    ok = outcome is True and sock.blocked == 0 and sock.timeout is None and not sock.sent and not sock.closed \
        and left == arrived
    accept_loop_never_waits.last = (k, outcome, sock.blocked, sock.timeout, len(left))
    deep(ok and k == 5 and first == 1)
    return ok


def explain(cname, args, famv):
    if cname == 'accept_loop_never_waits':
        accept_loop_never_waits(**args)
        return 'k=%d octets arrived: verify_request -> %r, accept thread blocked %r s, socket time-out left at %r, %d octets left to read' % accept_loop_never_waits.last
    if cname == 'ids_under_preemption':
        ids1, ids2 = _preempted_ids(args['j'], args['k'], args['m'], 2)
        return 'T1 suspended in call %d after %d instructions while T2 made %d calls: T1 got %r, T2 got %r' % (
            args['j'] + 1, args['k'], args['m'], ids1, ids2)
    if cname == 'requesters_interleaved':
        b_rejects, swap = bool(famv['b_rejects']), bool(famv['swap'])
        ta, tb = (1, 0) if swap else (0, 1)
        both_a, both_b = _requester_run('both', args['sw'], b_rejects, ta, tb)
        alone_a, _ = _requester_run('a', 0, b_rejects, ta, tb)
        _, alone_b = _requester_run('b', 0, b_rejects, ta, tb)
        return 'each requested association must behave as when it runs alone (A: %s, B: %s); waits for the peer made while ' \
               'holding the entity-wide lock: %r' % ('same' if both_a[:8] == alone_a[:8] else 'DIFFERS',
                                                      'same' if both_b[:8] == alone_b[:8] else 'DIFFERS',
                                                      (both_a[8] + both_b[8])[:3])
    if cname != 'interleaved_live':
        return 'each association must behave exactly as when it runs alone on a fresh entity'
    a_tsf, ending, dt = args['a_tsf'], args['ending'], args['dt']
    famv = dict(famv, sched=famv['sched'] + args.get('sw', 0))
    pa_ = ('CLIENT_A', 16384, 1 if a_tsf else 0, 100, b'\x11\x12\x13\x14', 0)
    pb_ = ('CLIENT_B', 4096, 0 if a_tsf else 1, 200, b'\x26\x27', ending)
    alone_a, _, log_a = _live_run(pa_, None, 0, dt)
    _, alone_b, log_b = _live_run(None, pb_, 0, dt)
    both_a, both_b, log = _live_run(pa_, pb_, famv['sched'], dt)
    out = []
    for nm, al, bo in (('A', alone_a, both_a), ('B', alone_b, both_b)):
        for f, x, y in zip(TRACE_FIELDS, al, bo):
            if x != y:
                out.append('association %s, %s: alone %s | next to the other %s' % (nm, f, repr(x)[:300], repr(y)[:300]))
    for e in log_a + log_b:
        if e not in log:
            out.append('handler call missing / different next to the other association: %s' % (repr(e)[:300],))
    return '\n'.join(out) or 'traces equal; handler log differs in length: %d vs %d + %d' % (len(log), len(log_a), len(log_b))
