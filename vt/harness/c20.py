"""C20 -- concurrent associations on one application entity are isolated (coarse interleavings only)."""
import warnings
import vt
vt.use_repo()
warnings.simplefilter('ignore')
import pydicom
from vt import api
from vt.api import cond, deep, fam, tier, pick
from vt.harness import assoc as A
from vt.harness.svc import Sent
from vt.harness.pdus import mkstream
from pynetdicom2 import applicationentity, asceprovider, sopclass, dimsemessages as dm, pdu, exceptions, statuses
import pynetdicom2

ASSUMPTIONS = [
    '2-safety by interleaving: two acceptor-side associations share ONE real AE object (real add_scp, real '
    'verification_scp / storage_scp); each is a real AssociationAcceptor built by its real constructor (only the '
    'socketserver base-class constructor, which would run the whole association at once, is replaced) over its own '
    'scripted provider; their steps (construct, establish, serve one message, ...) are interleaved according to a '
    'symbolic schedule word and every association\'s observable trace is compared with its trace when run alone',
    'claim strength: interleavings at the granularity of association steps and service calls. OUTSIDE the claim: '
    'byte-code level races between real OS threads (the entity\'s dict mutated during copy.copy, the GIL\'s scheduling), '
    'real TCP - a Python symbolic executor cannot make the thread schedule a solver variable',
]

VERIF = '1.2.840.10008.1.1'
CT = '1.2.840.10008.5.1.4.1.1.2'
MR = '1.2.840.10008.5.1.4.1.1.4'
TS = ['1.2.840.10008.1.2', '1.2.840.10008.1.2.1']


class _SocketServerStub(object):
    """asceprovider.socketserver as seen by AssociationAcceptor.__init__: the base-class constructor only records its
    arguments (the real one runs setup/handle/finish, i.e. the whole association, inside the constructor)"""
    class StreamRequestHandler(object):
        def __init__(self, request, client_address, server):
            self.request, self.client_address, self.server = request, client_address, server


class Entity(applicationentity.AE):
    """a real AE (configuration through the real add_scp) with recording handlers"""

    def __init__(self):
        applicationentity.AEBase.__init__(self, TS, 16384)
        self.log = []
        self.add_scp(sopclass.verification_scp)
        st = sopclass.storage_scp
        self.supported_scp.update({CT: st, MR: st})
        self.store_in_file.update([CT, MR])

    def on_receive_echo(self, ctx):
        self.log.append(('echo', ctx.id, str(ctx.supported_ts)))
        return statuses.SUCCESS

    def on_receive_store(self, ctx, ds):
        data = ds.read()
        self.log.append(('store', ctx.id, str(ctx.sop_class), str(ctx.supported_ts), data))
        # the status depends on the payload: cross-talk between associations would show up in the responses
        return 0xB000 + (data[0] % 8) if data else 0x0110


def request(name, maxlen, want_ct, want_mr, ts_first):
    tss = [TS[0], TS[1]] if ts_first == 0 else [TS[1], TS[0]]
    items = [pdu.ApplicationContextItem(A.APP_CTX),
             pdu.PresentationContextItemRQ(1, pdu.AbstractSyntaxSubItem(VERIF), [pdu.TransferSyntaxSubItem(TS[0])])]
    if want_ct:
        items.append(pdu.PresentationContextItemRQ(3, pdu.AbstractSyntaxSubItem(CT),
                                                   [pdu.TransferSyntaxSubItem(t) for t in tss]))
    if want_mr:
        items.append(pdu.PresentationContextItemRQ(5, pdu.AbstractSyntaxSubItem(MR),
                                                   [pdu.TransferSyntaxSubItem(tss[0])]))
    items.append(A.user_info(maxlen))
    return pdu.AAssociateRqPDU('SERVER', name, items)


def echo(mid):
    m = dm.CEchoRQMessage()
    m.message_id = mid
    m.sop_class_uid = VERIF
    return (m, 1)


def store(mid, cid, sop, payload):
    m = dm.CStoreRQMessage()
    m.message_id = mid
    m.sop_class_uid = sop
    m.affected_sop_instance_uid = '1.2.3.%d' % cid
    m.priority = 0
    m.data_set = mkstream(payload)
    return (m, cid)


class Client(object):
    """one association: its parameters, its steps, its observable trace"""

    def __init__(self, name, maxlen, want_ct, want_mr, ts_first, mid, payload, aborts):
        self.name, self.maxlen = name, maxlen
        self.rq = request(name, maxlen, want_ct, want_mr, ts_first)
        self.msgs = [echo(mid)]
        if want_ct:
            self.msgs.append(store(mid + 1, 3, CT, payload))
        if want_mr:
            self.msgs.append(store(mid + 2, 5, MR, payload[::-1]))
        self.aborts = aborts
        self.acc = None
        self.step_no = 0
        self.errors = []
        self.done = False

    def steps_total(self):
        return 2 + len(self.msgs)

    def step(self, ae):
        """construct / establish / serve the next message"""
        i = self.step_no
        self.step_no += 1
        if i == 0:
            A.patch_provider([])
            asceprovider.socketserver = _SocketServerStub
            self.acc = asceprovider.AssociationAcceptor(A.FakeRequest(), (self.name, 1), ae, 16384)
            return
        dul = self.acc.dul
        if i == 1:
            dul.script.append(self.rq)
            self.acc._establish()
            return
        k = i - 2
        if self.aborts and k == 1:
            dul.script.append(pdu.AAbortPDU(0, 0))
        else:
            dul.script.append(self.msgs[k])
        try:
            self.acc._loop()
        except exceptions.DCMTimeoutError:
            pass                                    # nothing more to read right now
        except exceptions.AssociationAbortedError:
            self.errors.append('aborted')
            self.acc.kill()
            self.done = True
        except exceptions.ClassNotSupportedError:
            self.errors.append('class not supported')
        if self.step_no >= self.steps_total():
            self.done = True

    def trace(self):
        acc = self.acc
        out = []
        for x in acc.dul.sent:
            if hasattr(x, 'pdu_type'):
                out.append(('pdu', x.pdu_type, x.encode()))
            else:
                s = Sent(list(x))
                out.append(('dimse', s.one_context(), s.command_field, s.responded_to, s.status, s.sop_class,
                            s.sop_instance))
        ctxs = sorted((k, str(v.sop_class), str(v.supported_ts)) for k, v in acc.accepted_contexts.items())
        routes = sorted((k, str(v[1]), str(v[2])) for k, v in acc.sop_classes_as_scp.items())
        return (out, ctxs, routes, acc.max_pdu_length, self.errors, str(acc.remote_ae))


_ALONE = {}


def run_alone(params):
    """trace of one association alone on a fresh entity (a function of concrete parameters: memoised per process)"""
    key = repr(params)
    if key not in _ALONE:
        _ALONE[key] = _run_alone(params)
    return _ALONE[key]


def _run_alone(params):
    ae = Entity()
    c = Client(*params)
    while not c.done:
        c.step(ae)
    mine = [e for e in ae.log]
    return c.trace(), mine


SCHEDULES = [0b00000000, 0b11111111, 0b01010101, 0b10101010, 0b00110011, 0b11001100, 0b00001111, 0b01101001]


def params_of(name, mx, ct, mr, tsf, mid, payload, aborts):
    return (name, mx, ct, mr, tsf, mid, payload, aborts)


@cond(bounds='two associations on one entity: each with its own requested maximum length (A: 7 / 16384 / 2^32-1 by symbolic choice, B: 4096), '
             'accepted-context subset (CT / MR storage proposed or not: symbolic), transfer-syntax order (symbolic), '
             'own message ids and payload; B may abort after its first message '
             '(symbolic); their steps are interleaved by a schedule word of 8 bits (one instance per word: 3 quick / 8 thorough)',
      family=lambda t: [dict(b_ct=b[0], b_mr=b[1], sched=s_)
                        for b in (((0, 0), (1, 0), (1, 1)) if t == 'thorough' else ((1, 0), (1, 1)))
                        for s_ in (SCHEDULES if t == 'thorough' else (SCHEDULES[2], SCHEDULES[5], SCHEDULES[7]))],
      timeout=300, thorough_timeout=1200)
def interleaved(mxi: int, a_ct: bool, a_tsf: bool, b_aborts: bool) -> bool:
    """
    pre: 0 <= mxi <= 2
    post: _
    """
    sched = fam('sched')
    mxa = (7, 16384, 0xFFFFFFFF)[pick(mxi, 0, 2)]
    a_ct, a_tsf, b_aborts = bool(pick(int(a_ct), 0, 1)), bool(pick(int(a_tsf), 0, 1)), bool(pick(int(b_aborts), 0, 1))
    mida, midb, pa, pb = 100, 200, b'\x11', b'\x26'        # distinct per association, concrete
    pa_ = params_of('CLIENT_A', mxa, a_ct, False, 1 if a_tsf else 0, mida, pa, False)
    pb_ = params_of('CLIENT_B', 4096, bool(fam('b_ct')), bool(fam('b_mr')), 0, midb, pb, b_aborts)
    alone_a, log_a = run_alone(pa_)
    alone_b, log_b = run_alone(pb_)
    ae = Entity()
    ca, cb = Client(*pa_), Client(*pb_)
    bit = 0
    while not (ca.done and cb.done):
        pick_b = (sched >> (bit % 8)) & 1
        bit += 1
        c = cb if (pick_b and not cb.done) or ca.done else ca
        c.step(ae)
    ok = ca.trace() == alone_a and cb.trace() == alone_b
    # every handler call belongs to exactly one association and is the one that association causes alone
    ok = ok and len(ae.log) == len(log_a) + len(log_b)
    for e in log_a + log_b:
        ok = ok and e in ae.log
    deep(ok and a_ct and b_aborts and len(ae.log) >= 3)
    return ok




@cond(bounds='message ids handed out by the convenience API: n = 1..6 calls (symbolic) in one thread give n distinct values; '
             'a copy of the presentation-context definition list is not affected by a later add_scu with k = 1..3 '
             'classes (symbolic) on the entity', timeout=120)
def ids_and_copies(n: int, k: int) -> bool:
    """
    pre: 1 <= n <= 6 and 1 <= k <= 3
    post: _
    """
    n, k = pick(n, 1, 6), pick(k, 1, 3)
    import threading
    pynetdicom2._tls = threading.local()
    ids = [pynetdicom2._new_msg_id() for _ in range(n)]
    ok = len(set(ids)) == n and all(isinstance(i, int) and 0 < i <= 65535 for i in ids)
    ae = Entity()
    before = ae.copy_context_def_list()
    snapshot = sorted(before)

    class Svc(object):
        sop_classes = []
    ae.add_scu(Svc(), ['1.2.840.10008.5.1.4.1.1.%d' % (20 + i) for i in range(k)])
    ok = ok and sorted(before) == snapshot and len(ae.context_def_list) == len(snapshot) + k
    deep(ok and n == 6 and k == 3)
    return ok


def explain(cname, args, famv):
    return 'each association must behave exactly as when it runs alone on a fresh entity'
