"""The real DULServiceProvider loop driven in the calling thread over a simulated transport.

A *conversation* is a list of turns:
    ('peer',  bytes, gate)    the peer transmits these bytes once the provider has written `gate` PDUs to the socket
    ('user',  primitive, gate) the local user issues this primitive once it has received `gate` indications
    ('close', None, gate)     the peer closes the connection once the provider has written `gate` PDUs
The bytes of a peer turn are handed to recv() as the segments produced by a *segmenter* (list of non-empty windows).
The provider's own run() is executed; the event deque is replaced by one that counts loop iterations and ends the loop
when the conversation is over and the provider idle, or when the step budget is exhausted.
"""
import collections

import vt
vt.use_repo()
from vt import api, sim
from vt.absbytes import AbsBytes
from pynetdicom2 import dulprovider, fsm, pdu

ST = fsm.States


class BudgetExceeded(Exception):
    pass


class _StructShim(object):
    """`struct` as seen by dulprovider: a window of the stream whose bounds are not determined is not unpackable"""
    import struct as _s
    error = _s.error

    @staticmethod
    def unpack(fmt, buf):
        import struct
        if isinstance(buf, AbsBytes):
            raise api.HarnessUnsupported('struct.unpack of a window with undetermined bounds')
        return struct.unpack(fmt, buf)

    @staticmethod
    def pack(fmt, *a):
        import struct
        return struct.pack(fmt, *a)


class ConvSocket(sim.SimSocket):
    """socket whose incoming side is fed by the conversation"""

    def __init__(self, conv):
        sim.SimSocket.__init__(self)
        self.conv = conv

    def readable(self):
        return self.conv.peer_ready(self)

    def recv(self, n, flags=0):
        import socket as _socket
        self.recv_calls += 1
        if self.closed:
            raise _socket.error('recv on closed socket')
        if flags & _socket.MSG_WAITALL:
            return sim.wait_all(self, n)
        return self.conv.peer_recv(self, n)


class ConvQueue(sim.SimQueue):
    """from_service_user: the next user primitive becomes available when its gate is reached"""

    def __init__(self, conv):
        sim.SimQueue.__init__(self)
        self.conv = conv

    def get(self, block=True, timeout=None):
        from six.moves import queue
        p = self.conv.user_next()
        if p is None:
            raise queue.Empty()
        return p


class StepDeque(collections.deque):
    """event FIFO of the provider; popleft() is called exactly once per loop iteration"""
    conv = None

    def popleft(self):
        c = self.conv
        c.steps += 1
        c.clock.now = c.clock.now + c.tick
        st = c.prov.timer._start_time
        if st is not None:
            c.armed_at = st
        if c.idle_at is None and c.armed_at is not None and st is None \
                and c.prov.state_machine.current_state == ST.STA_1:
            c.idle_at = c.clock.now
        if c.kill_at is not None and c.steps - 1 >= c.kill_at:
            c.prov.is_killed = True
        if c.steps >= c.budget:
            c.over_budget = True
            c.prov.is_killed = True
        elif c.finished() and len(self) == 0:
            c.prov.is_killed = True
        return collections.deque.popleft(self)


class Conversation(object):
    def __init__(self, turns, acceptor=True, segmenter=None, budget=200, silent_ok=False):
        self.turns = list(turns)
        self.acceptor = acceptor
        self.segmenter = segmenter or (lambda i, raw: [raw])
        self.budget = budget
        self.steps = 0
        self.over_budget = False
        self.hang = None
        self.pi = 0                  # index of the next turn not yet started, per kind scanned lazily
        self.segs = collections.deque()
        self.done_turn = [False] * len(self.turns)
        self.closed_by_peer = False
        self.prov = None
        self.sock = None
        self.clock = sim.SimClock(1000)
        self.delay = 0               # idle loop iterations before the peer's first bytes become readable
        self.recv_size = None        # if set: the provider's recv() size (its max_pdu_length attribute)
        self.first_peer_done = False
        self.tick = 0                # seconds added to the clock per loop iteration (may be symbolic)
        self.armed_at = None         # instant at which ARTIM was last started
        self.idle_at = None          # instant at which the provider was first seen idle after ARTIM had been armed
        self.kill_at = None          # loop iteration at which the termination flag is raised
        self.drop_none = False

    # -- helpers -------------------------------------------------------------------------------
    def n_sent(self):
        return len(self.sock.sent) if self.sock is not None else 0

    def n_ind(self):
        return len(self.prov.to_service_user.log)

    def _next(self, kinds):
        for i, (kind, payload, gate) in enumerate(self.turns):
            if self.done_turn[i]:
                continue
            # turns are causally ordered: a turn cannot start before all earlier turns have
            return (i, kind, payload, gate) if kind in kinds else None
        return None

    # -- peer side -----------------------------------------------------------------------------
    def peer_ready(self, sock):
        if self.segs:
            return True
        nx = self._next(('peer', 'close', 'reset'))
        if nx is None:
            return False
        i, kind, payload, gate = nx
        if self.n_sent() < gate:
            return False
        if not self.first_peer_done and self.steps < self.delay:
            return False
        return True

    def peer_recv(self, sock, n):
        if not self.segs:
            nx = self._next(('peer', 'close', 'reset'))
            if nx is None or self.n_sent() < nx[3]:
                self.hang = 'recv() on an open connection with a silent peer'
                raise api.Hang(self.hang)
            i, kind, payload, gate = nx
            self.done_turn[i] = True
            self.first_peer_done = True
            if kind == 'close':
                self.closed_by_peer = True
                return b''
            if kind == 'reset':
                import errno
                import socket as _socket
                self.closed_by_peer = True
                sock.peer_reset = True
                raise _socket.error(errno.ECONNRESET, 'Connection reset by peer')
            # the peer resets the connection right behind these bytes: the RST is already there when they are read
            nxt = [t for j, t in enumerate(self.turns) if not self.done_turn[j]][:1]
            if nxt and nxt[0][0] == 'reset' and self.n_sent() >= nxt[0][2]:
                sock.peer_reset = True
            for s in self.segmenter(i, payload):
                if s is not None:
                    self.segs.append(s)
            if not self.segs:
                return self.peer_recv(sock, n)       # the turn delivered nothing: go on to the next one
        seg = self.segs.popleft()
        if len(seg) > n:
            self.segs.appendleft(seg[n:])
            seg = seg[:n]
        return seg

    # -- user side -----------------------------------------------------------------------------
    def user_gave_up(self):
        """the local user issues nothing more once it has been told that the association is refused, aborted or
        released (primitives after that point are not legal user behaviour)"""
        for x in self.prov.to_service_user.log:
            t = getattr(x, 'pdu_type', None)
            if t in (3, 7):
                return True
            # A-RELEASE confirmation: the association is over - except on the acceptor side of a release collision
            # (Sta12), where the user still owes its own A-RELEASE response
            if t == 6 and self.prov.state_machine.current_state != ST.STA_12:
                return True
        return False

    def user_next(self):
        nx = self._next(('user',))
        if nx is None:
            return None
        i, kind, payload, gate = nx
        if self.n_ind() < gate or self.user_gave_up():
            return None
        self.done_turn[i] = True
        return payload() if callable(payload) else payload

    def finished(self):
        """idle, and nothing more can happen: no bytes in flight, no peer turn whose gate is reached, no user
        primitive that is enabled"""
        # (segments still in flight cannot arrive any more once the provider has given up its connection)
        if self.prov.state_machine.current_state != ST.STA_1 or self.prov.dul_socket is not None:
            return False
        for i, (kind, payload, gate) in enumerate(self.turns):
            if self.done_turn[i]:
                continue
            if kind == 'user':
                if self.n_ind() >= gate and not self.user_gave_up():
                    return False
            # undelivered peer turns cannot arrive any more: the connection is gone
        return True

    # -- running -------------------------------------------------------------------------------
    def run(self, first_ready=True):
        """Run the provider's real loop over this conversation; returns the observable trace."""
        sock = ConvSocket(self)
        self.sock = sock
        sockmod = sim.SocketModule()
        sockmod.socket = lambda *a: sock
        fsm.socket = sockmod
        sel = sim.SimSelect()
        dulprovider.select = sel
        dulprovider.time = self.clock
        dulprovider.struct = _StructShim
        prov = sim.make_provider(sock if self.acceptor else None)
        self.prov = prov
        prov.from_service_user = ConvQueue(self)
        if self.recv_size is not None:
            prov.max_pdu_length = self.recv_size
        ev = StepDeque(prov.event)
        ev.conv = self
        prov.event = ev
        err = None
        try:
            prov.run()
        except api.Hang as h:
            err = 'hang: %s' % (h,)
        except api.HarnessUnsupported:
            raise
        except Exception as e:
            err = 'died: %s: %s' % (type(e).__name__, e)
        return Trace(self, prov, sock, err)


def describe(x):
    """comparable description of an object put on to_service_user"""
    if isinstance(x, tuple):
        msg, pcid = x
        ds = msg.data_set
        if ds is not None and not isinstance(ds, bytes):
            pos = ds.tell()
            data = ds.read()
            ds.seek(pos)
            ds = data
        return ('dimse', type(msg).__name__, pcid, sorted((int(e.tag), str(e.value)) for e in msg.command_set), ds)
    if hasattr(x, 'encode') and hasattr(x, 'pdu_type'):
        return ('pdu', x.pdu_type, x.encode())
    return ('other', repr(x))


class Trace(object):
    def __init__(self, conv, prov, sock, err):
        self.err = err
        self.over_budget = conv.over_budget
        self.steps = conv.steps
        self.indications = [describe(x) for x in prov.to_service_user.log]
        self.sent = b''.join(sock.sent)
        self.n_sent = len(sock.sent)
        self.state = prov.state_machine.current_state
        self.closed = sock.closed
        self.socket_released = prov.dul_socket is None
        self.leftover = len(prov.raw_pdu)
        self.timer_running = prov.timer._start_time is not None
        self.exit_set = prov._is_killed.is_set()
        self.all_turns_done = all(conv.done_turn)

    def key(self):
        return (self.err, self.over_budget, self.indications, self.sent, self.state, self.closed,
                self.socket_released, self.leftover, self.timer_running, self.all_turns_done)

    def __repr__(self):
        return 'Trace(err=%r over_budget=%r steps=%d state=Sta%d closed=%r released=%r leftover=%d timer=%r ' \
               'turns_done=%r sent=%d bytes in %d PDUs, indications=%r)' % (
                   self.err, self.over_budget, self.steps, self.state + 1, self.closed, self.socket_released,
                   self.leftover, self.timer_running, self.all_turns_done, len(self.sent), self.n_sent,
                   [i[:2] for i in self.indications])


# --------------------------------------------------------------------------------------------------
# scenario corpus
# --------------------------------------------------------------------------------------------------

APP = '1.2.840.10008.3.1.1.1'
VERIF = '1.2.840.10008.1.1'
CT = '1.2.840.10008.5.1.4.1.1.2'
TS = '1.2.840.10008.1.2'


def _rq():
    from pynetdicom2 import userdataitems as udi
    p = pdu.AAssociateRqPDU('ACCEPTOR', 'REQUESTOR', [
        pdu.ApplicationContextItem(APP),
        pdu.PresentationContextItemRQ(1, pdu.AbstractSyntaxSubItem(VERIF), [pdu.TransferSyntaxSubItem(TS)]),
        pdu.PresentationContextItemRQ(3, pdu.AbstractSyntaxSubItem(CT), [pdu.TransferSyntaxSubItem(TS)]),
        pdu.UserInformationItem([udi.MaximumLengthSubItem(16384), udi.ImplementationClassUIDSubItem('1.2.3.4')])])
    p.called_presentation_address = ('acceptor.example', 104)
    return p


def _ac():
    from pynetdicom2 import userdataitems as udi
    return pdu.AAssociateAcPDU('ACCEPTOR', 'REQUESTOR', [
        pdu.ApplicationContextItem(APP),
        pdu.PresentationContextItemAC(1, 0, pdu.TransferSyntaxSubItem(TS)),
        pdu.PresentationContextItemAC(3, 0, pdu.TransferSyntaxSubItem(TS)),
        pdu.UserInformationItem([udi.MaximumLengthSubItem(16384), udi.ImplementationClassUIDSubItem('1.2.3.5')])])


def _echo_rq(mid=1, maxlen=16384):
    from pynetdicom2 import dimsemessages as dm
    m = dm.CEchoRQMessage()
    m.message_id = mid
    m.sop_class_uid = VERIF
    m.set_length()
    return list(m.encode(1, maxlen))


def _echo_rsp(mid=1, maxlen=16384):
    from pynetdicom2 import dimsemessages as dm
    m = dm.CEchoRSPMessage()
    m.message_id_being_responded_to = mid
    m.sop_class_uid = VERIF
    m.status = 0
    m.set_length()
    return list(m.encode(1, maxlen))


def _store_rq(maxlen, data=b'\x08\x00\x18\x00\x08\x00\x00\x001.2.3.4.' + b'\xe0\x7f\x10\x00\x10\x00\x00\x00' + bytes(range(16))):
    from pynetdicom2 import dimsemessages as dm
    m = dm.CStoreRQMessage()
    m.message_id = 2
    m.sop_class_uid = CT
    m.affected_sop_instance_uid = '1.2.3.4'
    m.priority = 0
    m.data_set = data
    m.set_length()
    return list(m.encode(3, maxlen))


def _store_rsp():
    from pynetdicom2 import dimsemessages as dm
    m = dm.CStoreRSPMessage()
    m.message_id_being_responded_to = 2
    m.sop_class_uid = CT
    m.affected_sop_instance_uid = '1.2.3.4'
    m.status = 0
    m.set_length()
    return list(m.encode(3, 16384))


def enc(pdus):
    return b''.join(p.encode() for p in pdus)


def gen(pdus):
    """a user P-DATA request as the association layer issues it: a generator of P-DATA-TF PDUs"""
    return lambda: iter(list(pdus))


def corpus():
    """name -> (acceptor?, turns)"""
    c = {}
    # acceptor side --------------------------------------------------------------------------------
    c['acc_echo_release'] = (True, [
        ('peer', _rq().encode(), 0), ('user', _ac(), 1),
        ('peer', enc(_echo_rq()), 1), ('user', gen(_echo_rsp()), 2),
        ('peer', pdu.AReleaseRqPDU().encode(), 2), ('user', pdu.AReleaseRpPDU(), 3), ('close', None, 3)])
    st = _store_rq(48)          # several fragments sent back to back
    c['acc_store_fragments_abort'] = (True, [
        ('peer', _rq().encode(), 0), ('user', _ac(), 1),
        ('peer', enc(st), 1), ('user', gen(_store_rsp()), 2),
        ('peer', pdu.AAbortPDU(0, 0).encode(), 2)])
    c['acc_reject'] = (True, [
        ('peer', _rq().encode(), 0), ('user', pdu.AAssociateRjPDU(1, 1, 3), 1), ('close', None, 1)])
    c['acc_local_release'] = (True, [
        ('peer', _rq().encode(), 0), ('user', _ac(), 1),
        ('peer', enc(_echo_rq()) + enc(_echo_rq(2)), 1), ('user', gen(_echo_rsp()), 2), ('user', gen(_echo_rsp(2)), 3),
        ('user', pdu.AReleaseRqPDU(), 3), ('peer', pdu.AReleaseRpPDU().encode(), 4)])
    c['acc_local_abort'] = (True, [
        ('peer', _rq().encode(), 0), ('user', _ac(), 1),
        ('peer', enc(_echo_rq()), 1), ('user', pdu.AAbortPDU(2, 0), 2), ('close', None, 2)])
    # the peer does not wait: several PDUs and the close are pending behind each other
    c['acc_data_abort_close_pipelined'] = (True, [
        ('peer', _rq().encode(), 0), ('user', _ac(), 1),
        ('peer', enc(_echo_rq()) + pdu.AAbortPDU(0, 0).encode(), 1), ('close', None, 1)])
    c['acc_request_abort_pipelined'] = (True, [
        ('peer', _rq().encode() + pdu.AAbortPDU(0, 0).encode(), 0), ('close', None, 0)])
    # a peer that breaks the protocol and does not wait either: unexpected A-ASSOCIATE-AC, a PDU of unknown type and an
    # A-ASSOCIATE-RQ behind each other (AA-8, then the Sta13 column: AA-7 twice), then the close
    c['acc_invalid_pdus_pipelined'] = (True, [
        ('peer', _rq().encode(), 0), ('user', _ac(), 1),
        ('peer', _ac().encode() + b'\x2a\x00\x00\x00\x00\x02\xab\xcd' + _rq().encode(), 1), ('close', None, 1)])
    # a LONG PDU of unknown type (Evt19: AA-8 -> Sta13) with a SHORT PDU right behind it (the peer's own A-ABORT: AA-2): what
    # the framing remembers about the long one must not survive it; the same as the very first PDU (Sta2: AA-1, then AA-2)
    _unknown = b'\x2a\x00' + (40).to_bytes(4, 'big') + bytes(range(40))
    c['acc_unknown_long_then_short'] = (True, [
        ('peer', _rq().encode(), 0), ('user', _ac(), 1),
        ('peer', _unknown + pdu.AAbortPDU(0, 0).encode(), 1), ('close', None, 2)])
    c['acc_first_pdu_unknown_then_short'] = (True, [
        ('peer', _unknown + pdu.AAbortPDU(0, 0).encode(), 0), ('close', None, 1)])
    st2 = _store_rsp()
    c['acc_sending_fragments_peer_closes'] = (True, [
        ('peer', _rq().encode(), 0), ('user', _ac(), 1),
        ('peer', enc(_echo_rq()), 1), ('user', gen(_store_rq(48)), 2), ('close', None, 2)])
    # requestor side -------------------------------------------------------------------------------
    c['req_echo_release'] = (False, [
        ('user', _rq(), 0), ('peer', _ac().encode(), 1), ('user', gen(_echo_rq()), 1),
        ('peer', enc(_echo_rsp()), 2), ('user', pdu.AReleaseRqPDU(), 2),
        ('peer', pdu.AReleaseRpPDU().encode(), 3)])
    c['req_rejected'] = (False, [
        ('user', _rq(), 0), ('peer', pdu.AAssociateRjPDU(1, 1, 3).encode(), 1)])
    c['req_peer_abort'] = (False, [
        ('user', _rq(), 0), ('peer', _ac().encode(), 1), ('user', gen(_echo_rq()), 1),
        ('peer', pdu.AAbortPDU(2, 0).encode(), 2)])
    c['req_peer_release'] = (False, [
        ('user', _rq(), 0), ('peer', _ac().encode(), 1), ('user', gen(_store_rq(64)), 1),
        ('peer', enc(_store_rsp()) + pdu.AReleaseRqPDU().encode(), 1 + len(_store_rq(64))),
        ('user', pdu.AReleaseRpPDU(), 3), ('close', None, 2 + len(_store_rq(64)))])
    # release collision, requestor side: both A-RELEASE-RQ cross (AR-8 -> Sta9), the local user answers (AR-9 -> Sta11),
    # the peer's A-RELEASE-RP ends the association (AR-3)
    c['req_release_collision'] = (False, [
        ('user', _rq(), 0), ('peer', _ac().encode(), 1), ('user', pdu.AReleaseRqPDU(), 1),
        ('peer', pdu.AReleaseRqPDU().encode(), 2), ('user', pdu.AReleaseRpPDU(), 2),
        ('peer', pdu.AReleaseRpPDU().encode(), 3), ('close', None, 3)])
    # release collision, acceptor side: AR-8 -> Sta10, the peer's A-RELEASE-RP (AR-10) -> Sta12, the local user answers (AR-4)
    # -> Sta13, the peer closes (AR-5)
    c['acc_release_collision'] = (True, [
        ('peer', _rq().encode(), 0), ('user', _ac(), 1), ('user', pdu.AReleaseRqPDU(), 1),
        ('peer', pdu.AReleaseRqPDU().encode(), 2), ('peer', pdu.AReleaseRpPDU().encode(), 2),
        ('user', pdu.AReleaseRpPDU(), 3), ('close', None, 3)])
    # the requesting user aborts an established association (AA-1 -> Sta13), the peer closes
    c['req_local_abort'] = (False, [
        ('user', _rq(), 0), ('peer', _ac().encode(), 1), ('user', gen(_echo_rq()), 1),
        ('peer', enc(_echo_rsp()), 2), ('user', pdu.AAbortPDU(0, 0), 2), ('close', None, 3)])
    c['req_release_confirm_and_close'] = (False, [
        ('user', _rq(), 0), ('peer', _ac().encode(), 1), ('user', pdu.AReleaseRqPDU(), 1),
        ('peer', pdu.AReleaseRpPDU().encode(), 2), ('close', None, 2)])
    return c


_CORPUS = None


def get_corpus():
    global _CORPUS
    if _CORPUS is None:
        _CORPUS = corpus()
    return _CORPUS


def peer_turns(turns):
    return [i for i, t in enumerate(turns) if t[0] == 'peer']
