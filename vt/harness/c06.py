"""C06 -- DIMSE fragmentation: size bound, fragment flags, byte-exact content (dimsemessages.py, asceprovider.py)."""
import warnings
import vt
vt.use_repo()
warnings.simplefilter('ignore')
from vt import api
from vt.api import cond, deep, fam, tier, pick
from vt.absbytes import LenSeq, LenFile
from pynetdicom2 import dimsemessages as dm, asceprovider, dsutils, pdu

ASSUMPTIONS = [
    'length conditions: data set and encoded command set are LenSeq stand-ins (only length and slice offsets are '
    'modelled; magnitudes unbounded); maximum PDU length M is any integer in [7, 2^32); the number of fragments per '
    'stream is bounded by K (3 quick / 6 thorough) through the precondition L <= K*(M-6)',
    'content conditions: real symbolic bytes (<= 4 quick / <= 6 thorough), command set encoded by the real pydicom path, '
    'M taken from {7, 9, 40, 16384} by a symbolic index',
    'the association object is built without its provider thread; dul.send records the generator it is given',
]

MSG_CLASSES = [dm.MESSAGE_TYPE[k] for k in sorted(dm.MESSAGE_TYPE)]
MAXU32 = 0xFFFFFFFF


def K():
    return 6 if tier() == 'thorough' else 3


def check_stream(frags, total, maxbody, normal, last, src):
    """frags: list of (chunk LenSeq, code).  Contiguous, non-empty, <= maxbody, last flag exactly on the final one."""
    pos = 0
    n = len(frags)
    for i, (chunk, code) in enumerate(frags):
        ln = len(chunk)
        if not (1 <= ln <= maxbody):
            return False
        if chunk.src != src or chunk.off != pos:
            return False
        pos = pos + ln
        if code != (last if i == n - 1 else normal):
            return False
    return pos == total and n >= 1


def take(gen, limit):
    out = []
    for x in gen:
        out.append(x)
        if len(out) > limit:
            break
    return out


@cond(bounds='fragment(): maximum PDU length M symbolic in [7, 2^32), data length L symbolic in [1, K*(M-6)] '
             '(K = 3 quick / 6 thorough fragments); integers of unbounded magnitude, no grid', timeout=120)
def fragment_bytes_lens(M: int, L: int) -> bool:
    """
    pre: 7 <= M <= 0xFFFFFFFF and 1 <= L <= K() * (M - 6)
    post: _
    """
    frags = take(dm.fragment(LenSeq(L), M, 0, 2), K() + 1)
    ok = check_stream(frags, L, M - 6, 0, 2, 'data') and len(frags) <= K()
    deep(ok and len(frags) == 3 and L == 3 * (M - 6))
    return ok


@cond(bounds='fragment_file(): same M and L; the file is a seekable length-only model (read(n), read(1), seek(-1,1)); '
             'the fragment sequence must be identical to the bytes variant', timeout=120)
def fragment_file_lens(M: int, L: int) -> bool:
    """
    pre: 7 <= M <= 0xFFFFFFFF and 1 <= L <= K() * (M - 6)
    post: _
    """
    fp = LenFile(L)
    frags = take(dm.fragment_file(fp, M, 0, 2), K() + 1)
    ref = take(dm.fragment(LenSeq(L), M, 0, 2), K() + 1)
    ok = check_stream(frags, L, M - 6, 0, 2, 'data') and len(frags) == len(ref)
    if ok:
        for (a, ca), (b, cb) in zip(frags, ref):
            ok = ok and len(a) == len(b) and a.off == b.off and ca == cb
    deep(ok and len(frags) == 2 and L == 2 * (M - 6))
    return ok


class _StubDsutils(object):
    """dsutils as seen by dimsemessages.encode in the length conditions: the encoded command set is C abstract bytes."""
    C = 0

    @classmethod
    def encode(cls, ds, implicit, little):
        return LenSeq(cls.C, 0, 'cmd')

    encode_element = staticmethod(dsutils.encode_element)
    decode = staticmethod(dsutils.decode)


@cond(bounds='DIMSEMessage.encode(): M in [7, 2^32), presentation context id 1..255, encoded command-set length C in '
             '[1, 2*(M-6)], data-set length L in [1, K*(M-6)] or absent, data as bytes or as seekable file - all '
             'symbolic; every produced P-DATA-TF is inspected through the real PDU classes', timeout=180)
def encode_lens(M: int, C: int, L: int, cid: int, has_ds: bool, as_file: bool) -> bool:
    """
    pre: 7 <= M <= 0xFFFFFFFF and 1 <= C <= 2 * (M - 6) and 1 <= L <= K() * (M - 6) and 1 <= cid <= 255
    post: _
    """
    msg = dm.CStoreRQMessage()
    fp = None
    if has_ds:
        if as_file:
            fp = LenFile(L)
            msg.data_set = fp
        else:
            msg.data_set = LenSeq(L)
    _StubDsutils.C = C
    old = dm.dsutils
    dm.dsutils = _StubDsutils
    try:
        pdus = take(msg.encode(cid, M), K() + 4)
    finally:
        dm.dsutils = old
    cmd, data = [], []
    seen_data = False
    for p in pdus:
        if len(p.data_value_items) != 1:
            return False
        v = p.data_value_items[0]
        if v.context_id != cid or p.pdu_length > M or p.total_length() != p.pdu_length + 6:
            return False
        hdr = v.data_value[0]
        body = v.data_value[1:]
        if hdr in (1, 3):
            if seen_data:
                return False            # command fragment after a data fragment
            cmd.append((body, hdr))
        elif hdr in (0, 2):
            seen_data = True
            data.append((body, hdr))
        else:
            return False
    ok = check_stream(cmd, C, M - 6, 1, 3, 'cmd') and len(cmd) <= 2
    if has_ds:
        ok = ok and check_stream(data, L, M - 6, 0, 2, 'data') and len(data) <= K()
        if as_file:
            ok = ok and fp.closed
    else:
        ok = ok and data == []
    deep(ok and len(cmd) == 2 and len(data) == 2)
    return ok


class _RecDul(object):
    def __init__(self):
        self.sent = []
        self.max_pdu_length = 65536       # the real provider keeps the LOCAL receive maximum, not the negotiated one

    def send(self, x):
        self.sent.append(x)


TS_UIDS = ['1.2.840.10008.1.2', '1.2.840.10008.1.2.1', '1.2.840.10008.1.2.2']


class _AnyContext(dict):
    """accepted contexts of an established association: whatever context id a message is sent on was accepted, with
    the transfer syntax chosen for this association (implicit LE / explicit LE / explicit BE)"""
    ts_index = 0

    def __missing__(self, cid):
        import pydicom
        v = asceprovider.PContextDef(cid, pydicom.uid.UID('1.2.840.10008.5.1.4.1.1.2'),
                                     pydicom.uid.UID(TS_UIDS[self.ts_index]))
        self[cid] = v
        return v


def make_assoc(max_pdu_length, ts_index=0):
    a = object.__new__(asceprovider.Association)
    a.dul = _RecDul()
    a.max_pdu_length = max_pdu_length
    a.accepted_contexts = _AnyContext()
    a.accepted_contexts.ts_index = ts_index
    a.association_established = True
    return a


MS = [7, 9, 40, 16384]


def _file_of(data):
    return pdu.cStringIO(data)


@cond(bounds='Association.send -> set_length -> encode for each of the 23 message classes: data set = symbolic bytes '
             'of length 1..4 (quick) / 1..6 (thorough) or absent, as bytes or as file; context id 1..255 symbolic; M = '
             '{7, 9, 40, 16384}[symbolic index]; command set encoded by the real pydicom path',
      family={'cls': list(range(23))}, timeout=180, thorough_timeout=600,
      outside='data-set contents longer than 6 symbolic bytes (longer data sets: lengths only)')
def encode_contents(data: bytes, cid: int, mi: int, as_file: bool) -> bool:
    """
    pre: len(data) <= _dl() and 1 <= cid <= 255 and 0 <= mi <= 3
    post: _
    """
    M = MS[pick(mi, 0, 3)]
    cls = MSG_CLASSES[fam('cls')]
    msg = cls()
    fp = None
    if len(data) > 0:
        if as_file:
            fp = _file_of(data)
            msg.data_set = fp
        else:
            msg.data_set = data
    a = make_assoc(M)
    a.send(msg, cid)
    if len(a.dul.sent) != 1:
        return False
    pdus = list(a.dul.sent[0])
    want_cmd = dsutils.encode(msg.command_set, True, True)
    cmd, dat = [], []
    flags = []
    for p in pdus:
        if len(p.data_value_items) != 1:
            return False
        v = p.data_value_items[0]
        if v.context_id != cid or p.pdu_length > M or len(v.data_value) < 2:
            return False
        hdr = v.data_value[0]
        flags.append(hdr)
        if hdr in (1, 3):
            if dat:
                return False
            cmd.append(v.data_value[1:])
        elif hdr in (0, 2):
            dat.append(v.data_value[1:])
        else:
            return False
    ok = b''.join(cmd) == want_cmd and b''.join(dat) == data
    ok = ok and flags.count(3) == 1 and flags[len(cmd) - 1] == 3
    if len(data) > 0:
        ok = ok and flags.count(2) == 1 and flags[-1] == 2
        if as_file:
            ok = ok and fp.closed
    else:
        ok = ok and flags[-1] == 3 and 2 not in flags and 0 not in flags
    deep(ok and len(dat) >= 2 and mi == 1)
    return ok


def _split(pdus):
    cmd, dat = [], []
    for p in pdus:
        v = p.data_value_items[0]
        (cmd if v.data_value[0] in (1, 3) else dat).append(v.data_value[1:])
    return b''.join(cmd), b''.join(dat)


@cond(bounds='the same message object sent twice on one association, its data set (symbolic bytes 1..3 each time) and '
             'message id re-assigned between the sends; the provider thread takes the first queued message before or '
             'only after the second send (symbolic schedule): the fragments of EACH send reproduce the command set and '
             'the data set as they were when that send was made; maximum length 9 / 40 (symbolic), bytes or file',
      family={'cls': [0, 5, 7]}, timeout=240)
def resent_contents(d1: bytes, d2: bytes, mid1: int, mid2: int, late: bool, mi: int, as_file: bool) -> bool:
    """
    pre: 1 <= len(d1) <= 3 and 1 <= len(d2) <= 3 and 0 <= mid1 <= 65535 and 0 <= mid2 <= 65535 and 1 <= mi <= 2
    post: _
    """
    M = MS[pick(mi, 1, 2)]
    msg = MSG_CLASSES[fam('cls')]()
    idf = 'MessageID' if 'MessageID' in msg.command_fields else 'MessageIDBeingRespondedTo'
    a = make_assoc(M)
    setattr(msg.command_set, idf, mid1)
    msg.data_set = _file_of(d1) if as_file else d1
    a.send(msg, 5)
    want1 = dsutils.encode(msg.command_set, True, True)
    first = None if late else list(a.dul.sent[0])
    setattr(msg.command_set, idf, mid2)
    msg.data_set = _file_of(d2) if as_file else d2
    a.send(msg, 5)
    want2 = dsutils.encode(msg.command_set, True, True)
    if late:
        first = list(a.dul.sent[0])
    second = list(a.dul.sent[1])
    ok = _split(first) == (want1, d1) and _split(second) == (want2, d2)
    deep(ok and late and len(d1) == 3 and len(d2) == 1)
    return ok


@cond(bounds='the fragments actually reach the transport: a C-STORE-RQ whose data set makes n = 1..40 P-DATA-TF PDUs (n symbolic; '
             'maximum length 64) is handed to a REAL provider (Sta6, stepped in the calling thread) through '
             'Association.send; the octets written to the socket are exactly the PDUs of the message, each once, in '
             'order - from memory and from a file (symbolic)', timeout=240)
def provider_sends_every_fragment(n: int, as_file: bool) -> bool:
    """
    pre: 1 <= n <= 40
    post: _
    """
    from vt import sim
    n = pick(n, 1, 40)
    as_file = bool(pick(int(as_file), 0, 1))
    with sim._no_tracing():
        ok = _provider_sends(n, as_file)
    deep(ok and n == 17)
    return ok


def _provider_sends(n, as_file):
    from vt import sim
    from vt.harness import live as L
    from pynetdicom2 import dulprovider, fsm as fsm_
    L.install(sim.SimClock(1000))
    sock = L.StepSocket()
    prov = sim.make_provider(sock)
    pump = L.Pump(prov, sock)
    prov.event.clear()
    prov.state_machine.current_state = fsm_.States.STA_6
    msg = dm.CStoreRQMessage()
    msg.message_id = 3
    msg.sop_class_uid = '1.2.840.10008.5.1.4.1.1.2'
    msg.affected_sop_instance_uid = '1.2.3'
    msg.priority = 0
    msg.set_length()
    ncmd = len(list(msg.encode(5, 64)))
    if n < ncmd:
        return True
    data = bytes((7 * i + 1) % 256 for i in range((n - ncmd) * 58))
    msg.data_set = (_file_of(data) if as_file else data) if data else None
    a = make_assoc(64)
    a.dul = prov
    a.send(msg, 5)
    pump.run()
    ref_msg = dm.CStoreRQMessage()
    ref_msg.message_id = 3
    ref_msg.sop_class_uid = '1.2.840.10008.5.1.4.1.1.2'
    ref_msg.affected_sop_instance_uid = '1.2.3'
    ref_msg.priority = 0
    ref_msg.data_set = data if data else None
    ref_msg.set_length()
    want = [p.encode() for p in ref_msg.encode(5, 64)]
    return pump.err is None and len(want) == max(n, ncmd) and list(sock.sent) == want \
        and prov.state_machine.current_state == fsm_.States.STA_6


def _dl():
    return 6 if tier() == 'thorough' else 4


# ------------------------------------------------------------------------------------------------
# E3: the inductive step of chunks() for ANY number of fragments, as a direct SMT lemma (vt/ast2smt.py)
# ------------------------------------------------------------------------------------------------

@cond(bounds='inductive step of the chunking loop over unbounded integers (no bound on the number of fragments): the '
             'generator expression of chunks() and the maxsize computations of fragment() / fragment_file() are read '
             'from the AST of the current source and translated to SMT-LIB2 (QF_LIA); 9 negated obligations are given '
             'to z3 and cvc5 (both must answer unsat): chunk non-empty and <= size, starts at the loop position, '
             'has_next <=> the loop yields again, contiguity, last chunk ends at the end, loop covers [0, len), step = '
             'size, payload + 6 <= maximum PDU length (M >= 7).  If the source no longer has the expected shape the '
             'lemma reports not-applicable (inconclusive) and the CrossHair conditions above stand alone',
      engine='smt', reach=False, timeout=120)
def chunks_step_lemma(L: int, S: int, P: int, M: int) -> bool:
    """
    pre: True
    post: _
    """
    # This body is the *replay* of a solver model on the real functions (the deciding step is the SMT query).
    if L > 2000000 or M > 2000000:
        raise api.HarnessUnsupported('model too large to be replayed concretely')
    if L >= 1 and S >= 1:
        data = bytes(i % 251 for i in range(L))
        pos = 0
        parts = []
        for chunk, has_next in dm.chunks(data, S):
            if not (1 <= len(chunk) <= S) or data[pos:pos + len(chunk)] != chunk:
                return False
            pos += len(chunk)
            parts.append(has_next)
        if pos != L or parts[-1] or not all(parts[:-1]):
            return False
    if M >= 7:
        for frag in (dm.fragment(b'x' * (3 * M), M, 0, 2), dm.fragment_file(pdu.cStringIO(b'x' * (3 * M)), M, 0, 2)):
            for chunk, code in frag:
                if len(chunk) < 1 or len(chunk) + 6 > M:
                    return False
    return True
