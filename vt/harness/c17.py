"""C17 -- every SCP response correlates with its request (sopclass.py, dimsemessages.py)."""
import contextlib
import warnings
import vt
vt.use_repo()
warnings.simplefilter('ignore')
import pydicom
from vt import api
from vt.api import cond, deep, fam, tier, pick
from vt.harness.svc import RecAssoc
from vt.harness.pdus import mkstream
from pynetdicom2 import sopclass, dimsemessages as dm, statuses, exceptions, asceprovider, dsutils

ASSUMPTIONS = [
    'providers are called as the acceptor loop calls them: service(association, PContextDef, message); the association '
    'is a real Association (real send/set_length/encode) over a recording provider; the application entity is a stub '
    'whose handlers return a symbolic 16-bit status (plain int) or raise EventHandlingError (symbolic choice)',
    'request messages are built through the public message classes (same property interface as decoded ones)',
    'documented failure statuses: C-ECHO/N-ACTION/N-EVENT-REPORT 0x0110 (processing failure), C-STORE 0xC000 (cannot '
    'understand), as named in the providers\' docstrings',
]

IMPLICIT = pydicom.uid.ImplicitVRLittleEndian
SOP_A = '1.2.840.10008.5.1.4.1.1.2'
INST = '1.2.3.4.5.6.7.8.9'


def ctx_of(cid, sop):
    return asceprovider.PContextDef(cid, pydicom.uid.UID(sop), IMPLICIT)


def _ds_bytes(**kw):
    ds = pydicom.Dataset()
    for k, v in kw.items():
        setattr(ds, k, v)
    return dsutils.encode(ds, True, True)


QUERY = _ds_bytes(PatientName='DOE^JOHN', QueryRetrieveLevel='PATIENT')


class AE(object):
    """application entity as seen by the providers"""

    def __init__(self, status, fail):
        self.status = status
        self.fail = fail
        self.local_ae = {'aet': 'LOCAL_AE'}
        self.calls = []
        self.store_in_file = set()
        self.context_def_list = {}
        self.matches = []
        self.move = (None, 0, [])
        self.sub = None
        self.commit = None
        self.sub_fault = None         # exception raised when a further association is requested (unreachable, refused)

    def _out(self):
        if self.fail:
            raise exceptions.EventHandlingError('handler failed')
        return self.status

    def on_receive_echo(self, ctx):
        self.calls.append(('echo', ctx))
        return self._out()

    def on_receive_store(self, ctx, ds):
        self.calls.append(('store', ctx, ds))
        return self._out()

    def on_receive_find(self, ctx, ds):
        self.calls.append(('find', ctx, ds))
        return iter(self.matches)

    def on_receive_move(self, ctx, ds, dest):
        self.calls.append(('move', ctx, ds, dest))
        return self.move

    def on_commitment_request(self, remote_ae, uids):
        self.calls.append(('commit_rq', remote_ae, list(uids)))
        if self.fail:
            raise exceptions.EventHandlingError('no')
        return self.commit

    def on_commitment_response(self, transaction_uid, success, failure):
        self.calls.append(('commit_rsp', transaction_uid, list(success), list(failure)))
        if self.fail:
            raise exceptions.EventHandlingError('no')

    @contextlib.contextmanager
    def request_association(self, remote_ae):
        self.calls.append(('assoc', remote_ae))
        if self.sub_fault is not None:
            raise self.sub_fault
        yield self.sub


def correlated(s, cid, cmd_field, mid, sop, inst=None):
    """s: Sent.  Same context, response type, Message ID Being Responded To, SOP class (and instance)."""
    ok = s.wellformed and s.one_context() == cid and s.command_field == cmd_field and s.responded_to == mid
    ok = ok and s.sop_class == sop
    if inst is not None:
        ok = ok and s.sop_instance == inst
    return ok


def _cid(h):
    return 2 * h + 1


@cond(bounds='C-ECHO provider: message id 0..65535, context id odd 1..255, handler status 0..65535 or '
             'EventHandlingError - all symbolic', timeout=120)
def echo_response(mid: int, h: int, st: int, fail: bool) -> bool:
    """
    pre: 0 <= mid <= 65535 and 0 <= h <= 127 and 0 <= st <= 65535
    post: _
    """
    ae = AE(st, fail)
    asce = RecAssoc(ae)
    rq = dm.CEchoRQMessage()
    rq.message_id = mid
    rq.sop_class_uid = sopclass.VERIFICATION_SOP_CLASS
    sopclass.verification_scp(asce, ctx_of(_cid(h), sopclass.VERIFICATION_SOP_CLASS), rq)
    sent = asce.sent()
    ok = len(sent) == 1 and correlated(sent[0], _cid(h), 0x8030, mid, str(sopclass.VERIFICATION_SOP_CLASS))
    ok = ok and sent[0].status == (0x0110 if fail else st) and sent[0].data is None
    deep(ok and fail and mid == 65535)
    return ok


@cond(bounds='C-STORE provider: message id, context id, handler status / EventHandlingError symbolic; SOP class and '
             'instance UID lengths symbolic (odd and even, 1..3 / 4..6 chars of a fixed alphabet)', timeout=120)
def store_response(mid: int, h: int, st: int, fail: bool, n: int, m: int) -> bool:
    """
    pre: 0 <= mid <= 65535 and 0 <= h <= 127 and 0 <= st <= 65535 and 1 <= n <= 3 and 4 <= m <= 6
    post: _
    """
    n, m = pick(n, 1, 3), pick(m, 4, 6)
    sop, inst = SOP_A[:20 + n], INST[:m]
    ae = AE(st, fail)
    asce = RecAssoc(ae)
    rq = dm.CStoreRQMessage()
    rq.message_id = mid
    rq.sop_class_uid = sop
    rq.affected_sop_instance_uid = inst
    rq.priority = 0
    fp = mkstream(b'\x08\x00\x18\x00\x02\x00\x00\x001.')
    rq.data_set = fp
    sopclass.storage_scp(asce, ctx_of(_cid(h), sop), rq)
    sent = asce.sent()
    ok = len(sent) == 1 and correlated(sent[0], _cid(h), 0x8001, mid, sop, inst)
    ok = ok and sent[0].status == (0xC000 if fail else st) and sent[0].data is None
    ok = ok and len(ae.calls) == 1 and ae.calls[0][2] is fp
    deep(ok and not fail and st == 0xB000)
    return ok


def _match(i):
    ds = pydicom.Dataset()
    ds.PatientName = 'MATCH^%d' % i
    ds.PatientID = 'ID%d' % i
    return ds


@cond(bounds='C-FIND provider (and the modality-worklist variant): message id, context id symbolic, k = 0..3 matches '
             'with pending status 0xFF00 / 0xFF01 chosen per match (symbolic): every response and the final one; the provider '
             'thread encodes each queued response at once or only after the service has returned (symbolic schedule)',
      family={'mwl': [0, 1]}, timeout=300)
def find_responses(mid: int, h: int, k: int, w0: bool, w1: bool, w2: bool, lazy: bool) -> bool:
    """
    pre: 0 <= mid <= 65535 and 0 <= h <= 127 and 0 <= k <= 3
    post: _
    """
    k = pick(k, 0, 3)
    sop = str(sopclass.MODALITY_WORK_LIST_INFORMATION_FIND_SOP_CLASS if fam('mwl')
              else sopclass.PATIENT_ROOT_FIND_SOP_CLASS)
    ae = AE(0, False)
    pend = [0xFF01 if w else 0xFF00 for w in (w0, w1, w2)][:k]
    ae.matches = [(_match(i), statuses.Status(p, dm.CFindRSPMessage)) for i, p in enumerate(pend)]
    # schedule: the provider thread takes every queued response at once, or only after the service callable has returned
    asce = RecAssoc(ae, lazy=lazy)
    rq = dm.CFindRQMessage()
    rq.message_id = mid
    rq.sop_class_uid = sop
    rq.priority = 0
    rq.data_set = QUERY
    svc = sopclass.modality_work_list_scp if fam('mwl') else sopclass.qr_find_scp
    svc(asce, ctx_of(_cid(h), sop), rq)
    sent = asce.sent()
    ok = len(sent) == k + 1
    for i, s in enumerate(sent):
        ok = ok and correlated(s, _cid(h), 0x8020, mid, sop)
        if i < k:
            ok = ok and s.status == pend[i] and s.data == dsutils.encode(_match(i), True, True)
        else:
            ok = ok and s.status == 0 and s.data is None
    deep(ok and k == 3 and w1 and not w2)
    return ok


@cond(bounds='C-FIND provider serving TWO associations of one entity (the acceptor threads interleave at the granularity of '
             'the application handler): association A\'s query yields 3 matches; before its match number `at` (symbolic '
             '0..3) is produced, association B\'s complete query (own message id, own context id, 1 match) is served; '
             'message ids symbolic. Every response of A still answers A\'s request on A\'s context, B\'s likewise; '
             'provider-thread schedule eager / lagging (symbolic)', timeout=240)
def find_responses_two_associations(mid_a: int, mid_b: int, h: int, at: int, lazy: bool) -> bool:
    """
    pre: 0 <= mid_a <= 65535 and 0 <= mid_b <= 65535 and mid_a != mid_b and 0 <= h <= 60 and 0 <= at <= 3
    post: _
    """
    at = pick(at, 0, 3)
    sop = str(sopclass.PATIENT_ROOT_FIND_SOP_CLASS)
    cid_a, cid_b = _cid(h), _cid(h + 2)

    class TwoAE(AE):
        def on_receive_find(self, ctx, ds):
            if ctx.id == cid_b:
                return iter([(_match(7), statuses.Status(0xFF00, dm.CFindRSPMessage))])
            return self.gen_a()

        def gen_a(self):
            for i in range(3):
                if i == at:
                    self.serve_b()
                yield (_match(i), statuses.Status(0xFF00, dm.CFindRSPMessage))
            if at == 3:
                self.serve_b()

        def serve_b(self):
            rq_b = dm.CFindRQMessage()
            rq_b.message_id = mid_b
            rq_b.sop_class_uid = sop
            rq_b.priority = 0
            rq_b.data_set = QUERY
            sopclass.qr_find_scp(self.asce_b, ctx_of(cid_b, sop), rq_b)
    ae = TwoAE(0, False)
    asce_a, ae.asce_b = RecAssoc(ae, lazy=lazy), RecAssoc(ae, lazy=lazy)
    rq = dm.CFindRQMessage()
    rq.message_id = mid_a
    rq.sop_class_uid = sop
    rq.priority = 0
    rq.data_set = QUERY
    sopclass.qr_find_scp(asce_a, ctx_of(cid_a, sop), rq)
    sa, sb = asce_a.sent(), ae.asce_b.sent()
    ok = len(sa) == 4 and len(sb) == 2
    for i, s_ in enumerate(sa):
        ok = ok and correlated(s_, cid_a, 0x8020, mid_a, sop)
        ok = ok and (s_.status == 0xFF00 and s_.data == dsutils.encode(_match(i), True, True) if i < 3
                     else s_.status == 0 and s_.data is None)
    for i, s_ in enumerate(sb):
        ok = ok and correlated(s_, cid_b, 0x8020, mid_b, sop)
        ok = ok and (s_.status == 0xFF00 and s_.data == dsutils.encode(_match(7), True, True) if i < 1
                     else s_.status == 0 and s_.data is None)
    deep(ok and at == 2 and lazy)
    return ok


class SubAssoc(object):
    """sub-association to the move destination"""

    def __init__(self, outcomes):
        self.outcomes = list(outcomes)
        self.stored = []

    def get_scu(self, sop_class):
        def service(ds, msg_id):
            self.stored.append((sop_class, ds, msg_id))
            code = self.outcomes[len(self.stored) - 1]
            return statuses.Status(code, dm.CStoreRSPMessage)
        return service


def _inst(i):
    ds = pydicom.Dataset()
    ds.SOPClassUID = SOP_A
    ds.SOPInstanceUID = '1.2.3.%d' % i
    return ds


@cond(bounds='C-MOVE provider: message id, context id symbolic; n = 1..3 sub-operations (symbolic) each ending in '
             'success / warning (B000) / failure (A700) by symbolic choice: every pending response and the final one',
      timeout=240)
def move_responses(mid: int, h: int, n: int, o0: int, o1: int, o2: int) -> bool:
    """
    pre: 0 <= mid <= 65535 and 0 <= h <= 127 and 1 <= n <= 3 and 0 <= o0 <= 2 and 0 <= o1 <= 2 and 0 <= o2 <= 2
    post: _
    """
    n = pick(n, 1, 3)
    codes = [(0x0000, 0xB000, 0xA700)[pick(o, 0, 2)] for o in (o0, o1, o2)][:n]
    sop = str(sopclass.PATIENT_ROOT_MOVE_SOP_CLASS)
    ae = AE(0, False)
    ae.sub = SubAssoc(codes)
    ae.move = ({'aet': 'DEST', 'address': 'd', 'port': 1}, n, iter([_inst(i) for i in range(n)]))
    asce = RecAssoc(ae)
    rq = dm.CMoveRQMessage()
    rq.message_id = mid
    rq.sop_class_uid = sop
    rq.priority = 0
    rq.move_destination = 'DEST'
    rq.data_set = QUERY
    sopclass.qr_move_scp(asce, ctx_of(_cid(h), sop), rq)
    sent = asce.sent()
    ok = len(sent) >= 1
    for s in sent:
        ok = ok and correlated(s, _cid(h), 0x8021, mid, sop)
    ok = ok and sent[-1].status != 0xFF00
    for s in sent[:-1]:
        ok = ok and s.status == 0xFF00
    deep(ok and n == 3 and o1 == 2)
    return ok


class RealSubAssoc(RecAssoc):
    """sub-association to the move destination on which the REAL storage_scu runs: the C-STORE-RQ is really built, its
    length set and encoded (a Message ID outside 0..65535 cannot be), the destination answers with the scripted status"""

    def __init__(self, ae, outcomes):
        RecAssoc.__init__(self, ae)
        self.outcomes = list(outcomes)

    def get_scu(self, sop_class):
        def service(ds, msg_id):
            rsp = dm.CStoreRSPMessage()
            rsp.status = self.outcomes[len(self.dul.pdus) + len(self.dul.queued)]
            self.script.append((rsp, 1))
            return sopclass.storage_scu(self, ctx_of(1, str(sop_class)), ds, msg_id)
        return service


@cond(bounds='C-MOVE provider with the REAL storage user on the sub-association: the C-MOVE-RQ\'s message id symbolic over '
             'the whole 16-bit range (incl. 65535), n = 1..3 sub-operations (symbolic choice) with outcome success / '
             'warning / failure each: every request is answered (n pending responses + one final, all correlated), every '
             'C-STORE-RQ that reached the destination carries a Message ID that fits its element and the instance',
      family={'n': [1, 2, 3]}, timeout=300)
def move_real_suboperations(mid: int, o0: int, o1: int, o2: int) -> bool:
    """
    pre: 0 <= mid <= 65535 and 0 <= o0 <= 2 and 0 <= o1 <= 2 and 0 <= o2 <= 2
    pre: tier() == 'thorough' or (o1 == o0 and o2 == o0)
    post: _
    """
    n = fam('n')
    codes = [(0x0000, 0xB000, 0xA700)[pick(o, 0, 2)] for o in (o0, o1, o2)][:n]
    sop = str(sopclass.PATIENT_ROOT_MOVE_SOP_CLASS)
    ae = AE(0, False)
    ae.sub = RealSubAssoc(ae, codes)
    ae.move = ({'aet': 'DEST', 'address': 'd', 'port': 1}, n, iter([_inst(i) for i in range(n)]))
    asce = RecAssoc(ae)
    rq = dm.CMoveRQMessage()
    rq.message_id = mid
    rq.sop_class_uid = sop
    rq.priority = 0
    rq.move_destination = 'DEST'
    rq.data_set = QUERY
    try:
        sopclass.qr_move_scp(asce, ctx_of(3, sop), rq)
    except Exception:                      # noqa: the request was not answered to the end
        return False
    sent = asce.sent()
    ok = len(sent) == n + 1
    for s_ in sent:
        ok = ok and correlated(s_, 3, 0x8021, mid, sop)
    ok = ok and sent[-1].status != 0xFF00
    stores = ae.sub.sent()
    ok = ok and len(stores) == n
    for i, st in enumerate(stores):
        ok = ok and st.command_field == 0x0001 and st.message_id is not None and 0 <= st.message_id <= 65535 \
            and st.sop_instance == '1.2.3.%d' % i
    deep(ok and mid == 65535)
    return ok


def _commit_request(n):
    ds = pydicom.Dataset()
    ds.TransactionUID = '1.2.3.99'
    seq = []
    for i in range(n):
        r = pydicom.Dataset()
        r.ReferencedSOPClassUID = SOP_A
        r.ReferencedSOPInstanceUID = '1.2.3.%d' % i
        seq.append(r)
    ds.ReferencedSOPSequence = pydicom.Sequence(seq)
    return dsutils.encode(ds, True, True)


class ReportAssoc(RecAssoc):
    pass


@cond(bounds='storage commitment N-ACTION provider: message id, context id symbolic, handler accepts / raises '
             'EventHandlingError (symbolic), result lists success-only / failure-only / mixed / both empty (sizes 0..2 '
             'symbolic); the association for the report works / cannot be established / never answers / is aborted (symbolic): '
             'the N-ACTION-RSP (always), and the N-EVENT-REPORT-RQ sent on the new association', timeout=300)
def n_action_response(mid: int, h: int, fail: bool, ns: int, nf: int, fault: int) -> bool:
    """
    pre: 0 <= mid <= 65535 and 0 <= h <= 127 and 0 <= ns <= 2 and 0 <= nf <= 2 and 0 <= fault <= 3
    post: _
    """
    ns, nf, fault = pick(ns, 0, 2), pick(nf, 0, 2), pick(fault, 0, 3)
    sop = str(sopclass.STORAGE_COMMITMENT_SOP_CLASS)
    ae = AE(0, fail)
    ae.commit = ({'aet': 'PEER'}, [(SOP_A, '1.2.3.%d' % i) for i in range(ns)],
                 [(SOP_A, '1.2.9.%d' % i, 0x0110) for i in range(nf)])
    rsp_stub = dm.NEventReportRSPMessage()
    rsp_stub.status = 0
    # fault in the reverse association, after the handler accepted the request: 1 = it cannot be established (refused /
    # unreachable), 2 = the report is never answered (time-out), 3 = the receiver aborts
    report = ReportAssoc(ae, script=[] if fault == 2 else [(rsp_stub, _cid(h))])
    if fault == 3:
        def aborted():
            raise exceptions.AssociationAbortedError(2, 0)
        report.receive = aborted
    ae.sub = report
    if fault == 1:
        ae.sub_fault = exceptions.AssociationRejectedError(1, 1, 3)
    asce = RecAssoc(ae)
    rq = dm.NActionRQMessage()
    rq.message_id = mid
    rq.sop_class_uid = sop
    rq.requested_sop_instance_uid = sopclass.STORAGE_COMMITMENT_PUSH_MODEL_SOP_CLASS
    rq.action_type_id = 1
    rq.data_set = _commit_request(ns + nf)
    try:
        sopclass.StorageCommitment()(asce, ctx_of(_cid(h), sop), rq)
    except exceptions.NetDICOMError:
        if fault == 0 or fail:
            return False
    # the request is answered whatever happens to the report afterwards
    sent = asce.sent()
    ok = len(sent) == 1 and correlated(sent[0], _cid(h), 0x8130, mid, sop,
                                       str(sopclass.STORAGE_COMMITMENT_PUSH_MODEL_SOP_CLASS))
    ok = ok and sent[0].status == (0x0110 if fail else 0)
    rep = report.sent()
    if fail:
        ok = ok and rep == []
    elif fault == 1:
        ok = ok and rep == []
    else:
        ok = ok and len(rep) == 1 and rep[0].command_field == 0x0100 and rep[0].sop_class == sop \
            and rep[0].us(0x1002) == (2 if nf else 1) and rep[0].data is not None
    deep(ok and not fail and ns == 1 and nf == 2)
    return ok


def _report_ds(ns, nf):
    ds = pydicom.Dataset()
    ds.TransactionUID = '1.2.3.99'
    if ns:
        seq = []
        for i in range(ns):
            r = pydicom.Dataset()
            r.ReferencedSOPClassUID = SOP_A
            r.ReferencedSOPInstanceUID = '1.2.3.%d' % i
            seq.append(r)
        ds.ReferencedSOPSequence = pydicom.Sequence(seq)
    if nf:
        seq = []
        for i in range(nf):
            r = pydicom.Dataset()
            r.ReferencedSOPClassUID = SOP_A
            r.ReferencedSOPInstanceUID = '1.2.9.%d' % i
            r.FailureReason = 0x0110
            seq.append(r)
        ds.FailedSOPSequence = pydicom.Sequence(seq)
    return dsutils.encode(ds, True, True)


@cond(bounds='storage commitment N-EVENT-REPORT provider: message id, context id, event type symbolic; SOP instance = the well-known push-model instance or another UID (symbolic); handler accepts '
             '/ raises EventHandlingError (symbolic); success-only / failure-only / mixed instance lists (sizes 0..2)',
      timeout=240)
def n_event_report_response(mid: int, h: int, fail: bool, ns: int, nf: int, ev: int, other: bool) -> bool:
    """
    pre: 0 <= mid <= 65535 and 0 <= h <= 127 and 0 <= ns <= 2 and 0 <= nf <= 2 and 1 <= ev <= 2 and ns + nf >= 1
    post: _
    """
    ns, nf = pick(ns, 0, 2), pick(nf, 0, 2)
    sop = str(sopclass.STORAGE_COMMITMENT_SOP_CLASS)
    inst = '1.2.826.0.1.99.7' if other else str(sopclass.STORAGE_COMMITMENT_PUSH_MODEL_SOP_CLASS)
    ae = AE(0, fail)
    asce = RecAssoc(ae)
    rq = dm.NEventReportRQMessage()
    rq.message_id = mid
    rq.sop_class_uid = sop
    rq.affected_sop_instance_uid = inst
    rq.event_type_id = ev
    rq.data_set = _report_ds(ns, nf)
    sopclass.StorageCommitment()(asce, ctx_of(_cid(h), sop), rq)
    sent = asce.sent()
    # every request that reaches a provider is answered
    ok = len(sent) == 1 and correlated(sent[0], _cid(h), 0x8100, mid, sop, inst)
    ok = ok and sent[0].status == (0x0110 if fail else 0)
    ok = ok and len(ae.calls) == 1 and len(ae.calls[0][2]) == ns and len(ae.calls[0][3]) == nf
    deep(ok and fail and nf == 2)
    return ok


@cond(bounds='C-GET user: the C-STORE-RSP sent for each incoming C-STORE-RQ (1..2 sub-operations, symbolic): message '
             'id of each request, arrival context id (3 / 129 / 255), handler status / EventHandlingError symbolic', timeout=240)
def get_store_responses(mid1: int, mid2: int, h: int, st: int, fail: bool, n: int) -> bool:
    """
    pre: 0 <= mid1 <= 65535 and 0 <= mid2 <= 65535 and 0 <= h <= 2 and 0 <= st <= 65535 and 1 <= n <= 2
    post: _
    """
    n = pick(n, 1, 2)
    get_sop = str(sopclass.PATIENT_ROOT_GET_SOP_CLASS)
    ae = AE(st, fail)
    store_cid = (3, 129, 255)[pick(h, 0, 2)]      # the provider keys a dict with it: not left symbolic
    ae.context_def_list = {1: ctx_of(1, get_sop), store_cid: ctx_of(store_cid, SOP_A)}
    script = []
    mids = [mid1, mid2][:n]
    for i, mid in enumerate(mids):
        rq = dm.CStoreRQMessage()
        rq.message_id = mid
        rq.sop_class_uid = SOP_A
        rq.affected_sop_instance_uid = '1.2.3.%d' % i
        rq.priority = 0
        rq.data_set = dsutils.encode(_inst(i), True, True)
        script.append((rq, store_cid))
    fin = dm.CGetRSPMessage()
    fin.message_id_being_responded_to = 5
    fin.sop_class_uid = get_sop
    fin.status = 0
    script.append((fin, 1))
    asce = RecAssoc(ae, script=script)
    got = list(sopclass.qr_get_scu(asce, ctx_of(1, get_sop), pydicom.Dataset(), 5))
    sent = asce.sent()
    ok = len(sent) == 1 + n and sent[0].command_field == 0x0010
    for i, mid in enumerate(mids):
        s = sent[1 + i]
        ok = ok and correlated(s, store_cid, 0x8001, mid, SOP_A, '1.2.3.%d' % i)
        ok = ok and s.status == (0xC000 if fail else st)
    deep(ok and n == 2 and not fail)
    return ok


# ------------------------------------------------------------------------------------------------
# through the acceptor loop: the context handed to the provider is the one the request arrived on
# ------------------------------------------------------------------------------------------------

from vt.harness import assoc as A
from pynetdicom2 import applicationentity, pdu

TS_IMPL = '1.2.840.10008.1.2'
TS_EXPL = '1.2.840.10008.1.2.1'


def _echo_rq(mid):
    rq = dm.CEchoRQMessage()
    rq.message_id = mid
    rq.sop_class_uid = sopclass.VERIFICATION_SOP_CLASS
    return rq


@cond(bounds='whole acceptor loop with the real verification provider: the verification class is accepted on two '
             'contexts (ids 1 and 3, different transfer syntaxes) and two C-ECHO requests arrive, each on a context '
             'chosen symbolically, with symbolic message ids', timeout=180)
def loop_context(first_on_3: bool, second_on_3: bool, mid1: int, mid2: int) -> bool:
    """
    pre: 0 <= mid1 <= 65535 and 0 <= mid2 <= 65535
    post: _
    """
    ae = object.__new__(applicationentity.AE)
    applicationentity.AEBase.__init__(ae, [TS_IMPL, TS_EXPL], 16384)
    ae.add_scp(sopclass.verification_scp)
    v = str(sopclass.VERIFICATION_SOP_CLASS)
    rq = pdu.AAssociateRqPDU('SCP', 'SCU', [
        pdu.ApplicationContextItem(A.APP_CTX),
        pdu.PresentationContextItemRQ(1, pdu.AbstractSyntaxSubItem(v), [pdu.TransferSyntaxSubItem(TS_IMPL)]),
        pdu.PresentationContextItemRQ(3, pdu.AbstractSyntaxSubItem(v), [pdu.TransferSyntaxSubItem(TS_EXPL)]),
        A.user_info(16384)])
    c1, c2 = (3 if first_on_3 else 1), (3 if second_on_3 else 1)
    acc, dul, err = A.run_acceptor(ae, 16384, [rq, (_echo_rq(mid1), c1), (_echo_rq(mid2), c2)])
    from vt.harness.svc import Sent
    rsps = [Sent(list(g)) for g in dul.sent[1:] if not hasattr(g, 'pdu_type')]
    ok = err is None and len(rsps) == 2
    ok = ok and correlated(rsps[0], c1, 0x8030, mid1, v) and correlated(rsps[1], c2, 0x8030, mid2, v)
    deep(ok and first_on_3 and not second_on_3)
    return ok
