"""Concrete replay of a condition instance against the real code: no CrossHair, no codec models.

usage: python -m vt.replay <file.json> [--profile]
exit 0: condition held; 1: condition failed (returned false / raised) = reproduced; 4: reach witness confirmed;
     3: replay machinery error
"""
import importlib
import json
import os
import sys
import traceback

os.environ['VT_REPLAY'] = '1'


def _unjson(v):
    if isinstance(v, dict) and set(v) == {'__bytes__'}:
        return bytes.fromhex(v['__bytes__'])
    if isinstance(v, list):
        return [_unjson(x) for x in v]
    return v


def run(spec, profile=False):
    import vt
    repo = vt.use_repo()
    from vt import api
    assert api.REPLAY
    mod = importlib.import_module(spec['module'])
    conds = {c.name: c for c in getattr(mod, '__conds__', [])}
    c = conds[spec['cond']]
    api._FAM.clear()
    api._FAM.update(spec.get('fam') or {})
    api._REACH = spec.get('mode') == 'reach'
    api._EXCL[:] = []
    args = {k: _unjson(v) for k, v in (spec.get('args') or {}).items()}
    seen = []
    seen_set = set()

    def prof(frame, event, arg):
        if event == 'call':
            co = frame.f_code
            fn = co.co_filename
            if fn.startswith(repo + os.sep):
                q = '%s:%s' % (os.path.relpath(fn, repo), getattr(co, 'co_qualname', co.co_name))
                if q not in seen_set:
                    seen_set.add(q)
                    seen.append(q)
    res = {'outcome': None, 'detail': ''}
    if profile:
        sys.setprofile(prof)
    try:
        r = c.fn(**args)
        res['outcome'] = 'ok' if r else 'false'
        res['detail'] = repr(r)
    except api.ReachWitness:
        res['outcome'] = 'reach'
    except api.HarnessUnsupported as e:
        res['outcome'] = 'unsupported'
        res['detail'] = 'HarnessUnsupported: %s' % (e,)
    except BaseException as e:  # noqa
        res['outcome'] = 'exception'
        res['detail'] = '%s: %s' % (type(e).__name__, e)
        res['traceback'] = traceback.format_exc()[-2500:]
    finally:
        sys.setprofile(None)
    res['functions'] = seen
    explain = getattr(mod, 'explain', None)
    if explain and res['outcome'] in ('false', 'exception'):
        try:
            res['explain'] = explain(spec['cond'], args, dict(api._FAM))
        except BaseException as e:  # noqa
            res['explain'] = 'explain failed: %r' % (e,)
    return res


def main(argv):
    path = argv[0]
    with open(path) as f:
        spec = json.load(f)
    try:
        res = run(spec, '--profile' in argv)
    except BaseException:  # noqa
        traceback.print_exc()
        sys.exit(3)
    sys.stdout.write('@@REPLAY@@' + json.dumps(res) + '\n')
    if '--profile' not in argv:
        print('condition %s.%s fam=%s args=%s -> %s %s' % (spec['module'], spec['cond'], spec.get('fam'),
                                                       spec.get('args'), res['outcome'], res['detail']))
        if res.get('explain'):
            print(res['explain'])
    sys.exit({'ok': 0, 'false': 1, 'exception': 1, 'reach': 4, 'unsupported': 3}[res['outcome']])


if __name__ == '__main__':
    main(sys.argv[1:])
