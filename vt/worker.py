"""One CrossHair analysis of one condition instance, in its own process.

usage: python -m vt.worker '<json list of tasks>'; a task = {index, module, cond, fam, timeout, exclude, reach}
For every task: the CrossHair analysis of the condition instance and, if no counterexample, of its reachability twin.
Prints one '@@RESULT@@{json}' line per task: status, message, args, paths, confirmed_paths, z3_queries, z3_seconds,
cpu_s, reach{witness, functions}
"""
import importlib
import json
import os
import sys
import time
import traceback
import types


def _jsonable(v):
    if isinstance(v, (bytes, bytearray)):
        return {'__bytes__': bytes(v).hex()}
    if isinstance(v, (list, tuple)):
        return [_jsonable(x) for x in v]
    if isinstance(v, dict):
        return {str(k): _jsonable(x) for k, x in v.items()}
    if isinstance(v, (int, str, bool, float)) or v is None:
        return v
    return repr(v)


def main(argv):
    """argv: <json list of tasks>  task = {module, cond, fam, timeout, exclude, reach: bool}"""
    tasks = json.loads(argv[0])
    import vt
    vt.use_repo()
    from vt import api, models
    import z3
    stats = {'q': 0, 't': 0.0}
    _orig_check = z3.Solver.check

    def _check(self, *a):
        s = time.perf_counter()
        try:
            return _orig_check(self, *a)
        finally:
            stats['q'] += 1
            stats['t'] += time.perf_counter() - s
    z3.Solver.check = _check

    import crosshair.core as core
    from crosshair.core_and_libs import analyze_function  # loads libimpl patches
    from crosshair.options import AnalysisOptionSet, DEFAULT_OPTIONS, AnalysisKind
    from crosshair.statespace import MessageType
    from crosshair.tracers import NoTracing
    import collections
    import inspect

    models.install()
    captured = {}
    _orig_mk = core.make_counterexample_message

    def _mk(conditions, args, return_val=None):
        msg = _orig_mk(conditions, args, return_val)
        try:
            with NoTracing():
                captured['args'] = {k: _jsonable(core.deep_realize(v)) for k, v in args.arguments.items()}
        except Exception as e:  # pragma: no cover
            captured['args_error'] = repr(e)
        return msg
    core.make_counterexample_message = _mk

    tree = {}
    _orig_ct = core.analyze_calltree

    def _ct(options, conditions):
        r = _orig_ct(options, conditions)
        tree['confirmed'] = r.num_confirmed_paths
        tree['status'] = r.verification_status.name
        tree['paths'] = (options.stats or {}).get('num_paths', 0)
        return r
    core.analyze_calltree = _ct
    refuting = (MessageType.POST_FAIL, MessageType.EXEC_ERR, MessageType.POST_ERR)

    def analyze(c, fam, mode, timeout, excl):
        t0 = time.process_time()
        stats['q'] = 0
        stats['t'] = 0.0
        captured.clear()
        tree.clear()
        api._FAM.clear()
        api._FAM.update(fam or {})
        api._REACH = mode == 'reach'
        fn = c.fn
        api._EXCL[:] = list(excl or [])
        opts = DEFAULT_OPTIONS.overlay(AnalysisOptionSet(
            analysis_kind=[AnalysisKind.PEP316], per_condition_timeout=float(timeout),
            report_all=True, stats=collections.Counter()))
        out = {'status': 'error', 'message': '', 'args': None}
        try:
            checkables = analyze_function(fn, opts)
            msgs = []
            for ch in checkables:
                msgs.extend(ch.analyze())
            if not checkables:
                out['message'] = 'no conditions parsed'
            st = None
            for m in msgs:
                if m.state == MessageType.CONFIRMED:
                    st = st or 'confirmed'
                elif m.state == MessageType.CANNOT_CONFIRM:
                    st = 'unknown' if st in (None, 'confirmed') else st
                elif m.state == MessageType.PRE_UNSAT:
                    st = 'pre_unsat'
                elif m.state in refuting:
                    st = 'refuted'
                    out['kind'] = m.state.name
                else:
                    st = st or 'error'
                out['message'] += (m.message or '') + ' | '
                if m.state in (MessageType.EXEC_ERR, MessageType.POST_ERR) and m.traceback:
                    out['traceback'] = m.traceback[-3000:]
            out['status'] = st or 'error'
            if st == 'refuted':
                out['args'] = captured.get('args')
                if 'args_error' in captured:
                    out['args_error'] = captured['args_error']
        except BaseException as e:  # noqa
            out['status'] = 'error'
            out['message'] = '%s: %s' % (type(e).__name__, e)
            out['traceback'] = traceback.format_exc()[-3000:]
        finally:
            api._REACH = False
        out.update(paths=tree.get('paths', 0), confirmed_paths=tree.get('confirmed', 0),
                   z3_queries=stats['q'], z3_seconds=round(stats['t'], 3),
                   cpu_s=round(time.process_time() - t0, 2))
        return out

    def unjson(v):
        if isinstance(v, dict) and set(v) == {'__bytes__'}:
            return bytes.fromhex(v['__bytes__'])
        if isinstance(v, list):
            return [unjson(x) for x in v]
        return v

    def replay_reach(c, fam, args):
        """Concrete run (no tracing) of the reach witness with a profile of the /repo functions entered."""
        repo = os.path.abspath(vt.REPO)
        seen, order = set(), []

        def prof(frame, event, arg):
            if event == 'call':
                co = frame.f_code
                f = co.co_filename
                if f.startswith(repo + os.sep):
                    q = '%s:%s' % (os.path.relpath(f, repo), getattr(co, 'co_qualname', co.co_name))
                    if q not in seen:
                        seen.add(q)
                        order.append(q)
        api._FAM.clear()
        api._FAM.update(fam or {})
        api._REACH = True
        sys.setprofile(prof)
        try:
            c.fn(**{k: unjson(v) for k, v in args.items()})
            ok = False
        except api.ReachWitness:
            ok = True
        except BaseException as e:  # noqa
            ok = False
            order.append('!! %r' % (e,))
        finally:
            sys.setprofile(None)
            api._REACH = False
        return ok, order

    for i, t in enumerate(tasks):
        mod = importlib.import_module(t['module'])
        c = {c.name: c for c in getattr(mod, '__conds__', [])}[t['cond']]
        if c.meta.get('engine') == 'smt':
            # E3: direct SMT lemma over the AST of the current source (no CrossHair): see vt/ast2smt.py
            from vt import ast2smt
            t0 = time.process_time()
            r = ast2smt.lemma()
            st = {'confirmed': 'confirmed', 'refuted': 'refuted'}.get(r['status'], 'unknown')
            out = dict(status=st, message='[E3 %s] %s' % (r['status'], r['message']), args=r.get('args'),
                       paths=len(r.get('obligations') or []) or 1, confirmed_paths=len(r.get('obligations') or []),
                       z3_queries=r.get('queries', 0), z3_seconds=round(r.get('seconds', 0.0), 3),
                       cpu_s=round(time.process_time() - t0, 2), index=t['index'])
            if st == 'refuted':
                out['kind'] = 'SMT_MODEL'
            sys.stdout.write('\n@@RESULT@@' + json.dumps(out) + '\n')
            sys.stdout.flush()
            continue
        out = analyze(c, t.get('fam'), 'check', t['timeout'], t.get('exclude'))
        if out['status'] in ('confirmed', 'unknown') and t.get('reach', True):
            r = analyze(c, t.get('fam'), 'reach', t['timeout'], t.get('exclude'))
            out['z3_queries'] += r['z3_queries']
            out['z3_seconds'] = round(out['z3_seconds'] + r['z3_seconds'], 3)
            out['cpu_s'] = round(out['cpu_s'] + r['cpu_s'], 2)
            if r['status'] == 'refuted' and 'ReachWitness' in r.get('message', '') and r.get('args') is not None:
                ok, fns = replay_reach(c, t.get('fam'), r['args'])
                if ok:
                    out['reach'] = dict(witness=r['args'], functions=fns)
                else:
                    out['reach'] = dict(error='witness %s did not replay: %s' % (r['args'], fns[-1:]))
            else:
                out['reach'] = dict(error='no witness: %s %s' % (r['status'], (r.get('message') or '')[:300]))
        out['index'] = t['index']
        sys.stdout.write('\n@@RESULT@@' + json.dumps(out) + '\n')
        sys.stdout.flush()


if __name__ == '__main__':
    main(sys.argv[1:])
