"""Generates /verif/MANIFEST.json from the table below:  .venv/bin/python -m vt.manifest"""
import json
import os

import vt

TECH = 'symbolic execution of the real /repo functions with CrossHair 0.0.110 + z3 (per-path SMT queries, all paths ' \
       'within stated bounds), independent oracle in /verif, counterexamples replayed concretely'

TRUSTED = 'Trusted: CrossHair/z3 soundness on the executed Python subset; environment models of vt/models.py ' \
          '(struct.Struct, io.BytesIO; differentially validated by setup); pydicom/six executed as they are. '

CLAIMED = {
    'C01': dict(
        text='Bounded symbolic model checking of the real encode/decode functions: for every PDU, item and sub-item class '
             'every path of decode(encode(x)) is explored with all integer fields symbolic over their full width, text '
             'lengths symbolic over their whole legal range, short symbolic contents, all 81 ordered sub-item adjacencies '
             '+ last position, item lists of length 0..3, 1..3 PDVs and payload lengths around 64 KiB; each condition is '
             '"Confirmed over all paths" or reported inconclusive. Universal over field values, which a test cannot be.',
        note=TRUSTED + 'Validity predicate and bounds as listed in evidence.assumptions / per-condition bounds; symbolic '
             'text contents limited to 3 (quick) / 5 (thorough) characters, lists to 3 items.',
        design='5/C01'),
}

CLAIMED['C18'] = dict(
    text='All 65536 status codes are one symbolic integer; for each of the 23 message classes and for no class the real '
         'Status.__init__/__int__ are executed over every path (the two registration dicts are presented to the solver as '
         'interval tables derived from the real dicts) and compared with an interval oracle transcribed from PS3.7/PS3.4: '
         'exactly one class flag, consistent with status_type, service-specific ranges first, unknown = failure, '
         'int(Status(v)) == v. Exhaustive over codes by solver reasoning, not enumeration.',
    note=TRUSTED + 'IntervalTable stand-in for the registration dicts (boundary-checked against the real dicts on every '
         'run); general warning codes of Annex C accepted as Warning or Failure.',
    design='5/C18')

CLAIMED['C04'] = dict(
    text='Every cell of PS3.8 Table 9-10: event fixed per instance, protocol state symbolic over all 13 states, role, ARTIM '
         'pre-state, stale-primitive choice and PDU field bytes symbolic; the real StateMachine.action and action methods '
         'run on a real (un-started) provider with recording socket/timer/queue and are compared cell by cell with a '
         'transcription of the standard (wire, indication, close, timer, next state; no effect at all in the 124 '
         'undefined cells). All 19 conditions confirmed over all paths.',
    note=TRUSTED + 'Recording stand-ins of vt/sim.py for socket/timer/queue; the triggering PDU of each event is one '
         'representative of its type with symbolic field bytes.',
    design='5/C04')

CLAIMED['C06'] = dict(
    text='The real chunks/fragment/fragment_file/DIMSEMessage.encode/Association.send are executed symbolically with the '
         'maximum PDU length M anywhere in [7, 2^32) and command/data lengths as unbounded symbolic integers (length-only '
         'byte stand-ins), up to K fragments per stream: size bound, flags, order, contiguity, one-last-and-final, '
         'bytes = file variant, file closed; plus byte-exact content with symbolic data bytes for all 23 message classes. '
         'A test samples lengths; the solver covers every M and L in the bound, incl. all exact-multiple boundaries.',
    note=TRUSTED + 'LenSeq/LenFile length-only stand-ins (vt/absbytes.py); number of fragments per stream bounded by K=3 '
         '(quick) / 6 (thorough); symbolic data contents <= 4 / 6 bytes.',
    design='5/C06')

CLAIMED['C08'] = dict(
    text='For each of the 23 message classes the real constructor, field setters, set_length, pydicom element writer and '
         'Association.send run symbolically with message id / status / counters over the full 16-bit range, UID lengths '
         'symbolic (odd/even padding), optional fields set/unset and data set present/None/empty, one send and repeated '
         'sends of the same object with changed fields; the bytes queued for transmission are read back by an independent '
         'implicit-VR-LE element reader: group length = bytes following, ascending tags, PS3.7 command field, data-set-type '
         'flag <=> data fragments follow.',
    note=TRUSTED + 'UID length range 1..4 in the quick tier (1..64 thorough); one fragment per stream (M=16384); pydicom '
         'writer executed as is.',
    design='5/C08')

CLAIMED['C10'] = dict(
    text='Both roles: configured maximum A in [7, 2^32) and peer-announced maximum P in {0} u [7, 2^32) are symbolic '
         'integers (no grid); the real accept / _request negotiation code is followed by the real send -> encode -> '
         'fragment path with length-only data; asserted: announced value in 1..A, every P-DATA-TF <= P unless P = 0, and '
         'both streams of a message of up to K fragments are delivered completely (ability to send).',
    note=TRUSTED + 'LenSeq stand-ins; A < 7 and P in 1..6 are outside the documented domain; K = 3 / 6 fragments.',
    design='5/C10')

CLAIMED['C09'] = dict(
    text='The real AssociationAcceptor.accept and one iteration of _loop run symbolically on a real AE configuration object: '
         'per instance the abstract syntax and served set are fixed, and the ordered list of 1..3 proposed transfer syntaxes, '
         'every subset of supported transfer syntaxes, 0..3 contexts with symbolic abstract-syntax choices, AE titles and '
         'maximum length are symbolic; reply, accepted_contexts, sop_classes_as_scp and message dispatch are compared with '
         'an independent reference negotiation (one answer per context, same ids and order, accepted iff served and '
         'proposed ∩ supported non-empty, returned syntax in that intersection, routing = what was reported).',
    note=TRUSTED + 'Universe: 3 abstract syntaxes, 3 (quick) / 4 (thorough) transfer syntaxes; context ids drawn from a fixed '
         'set varying with the path (a symbolic dict key would only be enumerated); services are recording callables.',
    design='5/C09')

CLAIMED['C17'] = dict(
    text='Each provider callable (C-ECHO, C-STORE, C-FIND incl. worklist, C-MOVE, N-ACTION, N-EVENT-REPORT, and the C-STORE '
         'responses of the C-GET user) is executed symbolically on a real Association (real send/set_length/encode) with '
         'message id over 0..65535, context id, handler status over 0..65535 or EventHandlingError, result-list shapes '
         'symbolic; every transmitted response is read back from the P-DATA bytes by an independent element reader and must '
         'sit on the arrival context, carry Message ID Being Responded To = request id, the request SOP class (and instance), '
         'the matching response command field and the handler status / documented failure status; one answer per request.',
    note=TRUSTED + 'Application entity and sub-associations are recording stubs; requests are built through the message '
         'classes; pydicom data-set codec executed as is; C-GET store context id from {3,129,255} (dict key).',
    design='5/C17')

CLAIMED['C14'] = dict(
    text='The real acceptor (handle/_establish/reject/_loop), requester (_request/_handle_errors/receive/release/abort) and '
         'the request_association context manager run symbolically without provider threads: (result, source, reason) of a '
         'refusal and (source, reason) of an abort are symbolic over the whole byte range, the position of the '
         'refusal/abort/release among DIMSE exchanges and the point of an application exception in the with-body are '
         'symbolic. Asserted: the A-ASSOCIATE-RJ bytes carry exactly the triple, the rejection/abort/release errors carry '
         'the fields unchanged, no service runs on a refused association, normal exit = exactly one A-RELEASE-RQ and no '
         'A-ABORT, exceptional exit = exactly one A-ABORT and the exception propagates, release by the peer is answered.',
    note=TRUSTED + 'dulprovider.DULServiceProvider replaced by a scripted recorder inside asceprovider; at most 2 DIMSE '
         'exchanges before the ending.',
    design='5/C14')

CLAIMED['C16'] = dict(
    text='C-FIND user and provider callables (query/retrieve and worklist variants, and the c_find wrapper) are composed in '
         'one symbolic execution: the user sends through a real Association, the request PDUs are reassembled by the real '
         'DIMSEDecoder, the provider answers through a second real Association, and its PDUs are reassembled and replayed '
         'to the user. Number of matches 0..3, pending code per match, message id, fragment size and the schedule of the '
         'provider thread (drains queued messages at once / only after the provider callable returned) are symbolic. '
         'Asserted: exactly the matches with exactly those pending statuses in order, one final non-pending response, '
         'iteration stops (stray responses stay unread), query data set unchanged at the handler.',
    note=TRUSTED + 'Two schedules of the provider thread only (eager / fully lagging), not arbitrary interleavings; match data '
         'sets from a concrete pool; handler yields pending statuses only.',
    design='5/C16')

CLAIMED['C03'] = dict(
    text='The real provider loop (run, _check_network, _check_incoming_pdu, _process_incoming, state machine, DIMSE '
         'reassembly) runs in the calling thread over a simulated transport for 9 conversations (both roles). For every '
         'peer turn the cut offsets 0 <= c1 <= c2 <= len are unbounded symbolic integers (received data are windows of the '
         'concrete stream with symbolic bounds), so every single cut and every pair of cuts is decided at once; also a '
         'symbolic recv() size, the one-byte dribble and the timing of the first segment. Asserted: the whole observable '
         'trace (indications with contents, bytes written, final state, connection, leftover buffer) equals that of the '
         'one-PDU-per-segment delivery.',
    note=TRUSTED + 'Simulated select/socket/queue/clock (vt/sim.py, vt/harness/prov.py); AbsBytes windows; corpus of 9 '
         'conformant conversations; cuts in one peer turn at a time; multi-PDU turns get one cut in the quick tier.',
    design='5/C03')

CLAIMED['C13'] = dict(
    text='The real provider loop runs over the simulated transport for every conversation of the corpus (both roles): the '
         'peer disconnects after a symbolic byte prefix of each of its turns (all prefixes at once); the peer stays silent '
         'at every point where ARTIM is armed while the clock advances by a symbolic dt per iteration (time is a solver '
         'variable: before / at / after the 10 s limit); the termination flag is raised at a symbolic iteration. Asserted: '
         'no blocking call on a silent open connection, idle state, transport closed and released, ARTIM stopped, the user '
         'told if an association had been indicated, bounded time after arming, exit event set.',
    note=TRUSTED + 'Simulated transport: a recv() that would block for ever raises Hang; scenario corpus of 9 conversations + 7 '
         'silence points; the user issues nothing after being told the association ended; two-thread kill() handshake '
         'outside the claim.',
    design='5/C13')

CLAIMED['C12'] = dict(
    text='The real provider loop is brought into each waiting state (2, 3, 5, 6, 7, 13) by a conformant prefix over the '
         'simulated transport and then receives hostile bytes followed by the peer closing: unknown type bytes (symbolic over '
         '0, 8..255), the PDU length field replaced by a symbolic 32-bit value, one byte at each structural offset replaced '
         'by a symbolic value, truncation at a symbolic point with fixed-up length, PDV length / context id / control header '
         '/ command bytes symbolic, arbitrary symbolic bodies, and every valid PDU in every state. Asserted: the loop neither '
         'dies nor blocks, ends idle with the connection closed and released, the user is told, everything written parses '
         'with an independent PS3.8 reference parser, and an A-ABORT (plus A-P-ABORT indication) answers what no decoder '
         'could accept.',
    note=TRUSTED + 'Structure-aware symbolic mutations of 7 representative valid PDUs; symbolic bodies <= 4 (quick) / 6 bytes; '
         'abort demanded only for unknown type bytes and bodies shorter than the fixed part, elsewhere orderly abort or '
         'lenient processing are both accepted; in Sta13 ignoring the bytes is accepted.',
    design='5/C12')

CLAIMED['C05'] = dict(
    text='The whole real provider (run loop, socket reader, framing, event FIFO, state machine, ARTIM timer, DIMSE reassembly) '
         'is stepped in the calling thread in lock-step with an executable reference model of the PS3.8 machine (Table 9-10 '
         'transcription + ARTIM + transport): from every protocol state reached by a canonical history (16 starts, both '
         'roles, incl. release-collision and mid-message states) every sequence of 2 (quick) / 3 (thorough) events chosen by '
         'symbolic selectors from a 20-event alphabet (7 PDU types, partial/rest of a message, unrecognised PDU, close, ARTIM '
         'expiry, time advance, each legal user primitive); after every step PDUs written, indications, connection, timer '
         'and state must equal the reference. The named consequences (no P-DATA outside Sta6-8, idle => closed, ARTIM exactly '
         'in Sta2/Sta13, nothing indicated after the end) follow from the equality and the model invariant, which is checked.',
    note=TRUSTED + 'Histories = canonical prefix + 2 (3) symbolic events, not arbitrary depth; events are enumerated by the solver '
         '(finite alphabet); real threads and the user-thread/provider-thread race are outside the claim; P-DATA indications '
         'are per complete DIMSE message.',
    design='5/C05')

CLAIMED['C19'] = dict(
    text='C-GET user (qr_get_scu) and C-MOVE provider (qr_move_scp, _send_response) run symbolically on a real Association: '
         'number of sub-operations 0..3, per-sub-operation outcome, interleaving of pending C-GET responses with C-STORE '
         'requests, arrival contexts, message ids, handler status / EventHandlingError position, final status, destination '
         'known/unknown are symbolic. Asserted: one C-STORE-RSP per C-STORE-RQ on its arrival context with the right ids, '
         'instances handed over once and in order, iteration ends at the final C-GET-RSP; each instance stored once, in '
         'order, at the designated destination; after k sub-operations remaining = total-k and k performed; exactly one '
         'final response, also for total = 0 (and then no sub-association).',
    note=TRUSTED + 'Scripted incoming messages; recording stubs for the application entity and the sub-association; at most 3 '
         'sub-operations.',
    design='5/C19')

CLAIMED['C07'] = dict(
    text='Fragments produced by the real encoder are regrouped into P-DATA-TF PDUs by a symbolic composition (bit-vector) and '
         'fed PDU by PDU to the real DIMSEDecoder: message id symbolic, data-set bytes symbolic (2 bytes + concrete tail over '
         'several fragments), fragment sizes giving 2..7 fragments, in-memory and file-backed reception (real get_file / '
         'write_meta on an in-memory file, negotiated transfer syntax symbolic). Asserted: completion signalled exactly at the '
         'PDU carrying the last fragment, same message class / context / command set / data bytes; the file handed over is '
         'preamble + DICM + a meta group of correct length naming the negotiated transfer syntax + exactly the transmitted '
         'bytes (read by an independent Part-10 reader); all 23 command-field codes dispatch to the PS3.7 class.',
    note=TRUSTED + 'tempfile.TemporaryFile replaced by an in-memory file; quick tier: fragment lists of up to 5 (all 2^(n-1) '
         'compositions), thorough up to 7; long file-backed data sets use concrete content.',
    design='5/C07')

CLAIMED['C02'] = dict(
    text='Differential symbolic execution against an independent, strictly length-driven reference codec (vt/refs/ps38.py, '
         'written from PS3.8 9.3 / PS3.7 Annex D) in the same path: (A) for the structured values of C01 with symbolic '
         'fields the reference parser applied to the library bytes yields exactly the fields, every nested length field '
         'delimits its bytes, total_length = bytes emitted, AE titles space-padded; (B) reference-encoded PDUs the library '
         'never produces itself - user sub-items in every order (all 81 ordered pairs + a third), unknown sub-item types, '
         '0..3 transfer syntaxes, 1..3 PDVs, space-padded titles, non-zero reserved fields - decode to the field values. '
         'Catches errors made symmetrically in encode and decode, which round-trip checks (C01) cannot see.',
    note=TRUSTED + 'The reference codec is part of the trusted base (about 250 lines, no import from the library); bounds as C01.',
    design='5/C02')

CLAIMED['C15'] = dict(
    category='model_checking',
    text='Composition in one symbolic path without threads or sockets: storage_scu -> Association.send -> encode -> P-DATA-TF '
         'bytes -> PDataTfPDU.decode -> DIMSEDecoder with file-backed reception (real get_file/write_meta) -> storage_scp -> '
         'handler, and the C-STORE-RSP back to the Status the sender returns. Symbolic: data-set bytes (short prefix + tail over '
         'several fragments), source file vs in-memory Dataset, asymmetric maximum PDU lengths of the two sides, message id, '
         'handler outcome (4 status codes or EventHandlingError), transfer syntax. Asserted: the handler reads a DICOM file '
         'whose data set is exactly the sent bytes under the negotiated syntax with the sent UIDs; the sender gets the '
         'handler status (0xC000 on EventHandlingError). Directory storage: which of the candidate file names already exist '
         'and the number of repeated stores are symbolic; every store gets a new name and nothing existing is truncated.',
    note=TRUSTED + 'NOT covered (outside this technique): real loopback TCP, the two provider threads and OS scheduling - the '
         'provider loop and framing are covered by C03/C05/C12/C13 on the simulated transport. In-memory file system and '
         'tempfile stand-ins; data-set contents: 2-3 symbolic bytes, the rest concrete; pydicom encodes the Dataset variant.',
    design='5/C15')

CLAIMED['C11'] = dict(
    text='The real configuration API (add_scu / add_scp / copy_context_def_list on a real AE object) and the real '
         'AssociationRequester (constructor, request/_request, get_scu) run symbolically: three configuration calls with '
         'symbolic class-list sizes, symbolic number of transfer syntaxes and maximum length; the scripted reply carries a '
         'symbolic result 0..4 and transfer-syntax choice per context; sequences of two associations on one entity; the '
         '128-class edge with a symbolic class count. Asserted: called/calling titles, application context, maximum length, '
         'each class proposed once under distinct odd ids 1..255 with the configured syntaxes, PDU encodable; usable '
         'contexts = accepted among proposed with the peer\'s syntax; get_scu succeeds iff such a context exists, else '
         'ClassNotSupportedError.',
    note=TRUSTED + 'Known finding D14 (more than 128 configured classes get ids above 255) is listed in known_findings.json and '
         'excluded by its predicate; class lists of successive calls are disjoint; replies are conformant.',
    design='5/C11')

CLAIMED['C20'] = dict(
    category='exploration',
    text='Isolation as a 2-safety property decided by interleaving at association-step granularity: two real '
         'AssociationAcceptor objects (real constructors, real accept/_loop, real verification and storage providers) share '
         'ONE real AE object; their steps (construct, establish, serve each message, abort) are interleaved by schedule '
         'words, with per-association maximum length, accepted-context subset, transfer-syntax order and abort decision '
         'chosen by symbolic selectors; every association\'s trace (reply, responses read back from the bytes, routing '
         'tables, negotiated length, handler calls) must equal its trace when run alone on a fresh entity. Plus: message ids '
         'of the convenience API distinct within a thread, context-list copies unaffected by later configuration. This '
         'finds state shared through the entity, classes or modules; it does NOT cover byte-code level thread races.',
    note=TRUSTED + 'OUTSIDE the claim: real OS threads / GIL scheduling / real TCP (a Python symbolic executor cannot make the '
         'thread schedule a solver variable) - except for the forced pre-emption harness of _new_msg_id - that part of the property is not addressed by this technique. Schedules: 3 '
         '(quick) / 8 (thorough) words; selectors are finite and enumerated by the solver.',
    design='5/C20')

# additions of the third session (appended to the level text of each property; section 10.8 of DESIGN.md)
ADDED = {
    'C01': ' Also: the round trip after an earlier encode/decode of a different value of the same kind (decoder / encoder '
           'state must not carry over; class- and module-level containers of the codec are reset between executions), '
           'presentation-context ids in any order.',
    'C02': ' Also: UTF-8 user-identity fields over the whole Unicode range (lengths count bytes), and objects whose public '
           'attributes are re-assigned after construction / after a first encode (the bytes must describe the current '
           'field values).',
    'C03': ' Corpus also holds a peer that pipelines protocol violations (unexpected A-ASSOCIATE-AC, unknown PDU type, '
           'A-ASSOCIATE-RQ) and the close.',
    'C04': ' Also: Evt10 with a symbolic message control header and payload (fragment of an incomplete message vs. invalid '
           'PDU = Evt19 effect) in every state.',
    'C05': ' Time is a symbolic advance (0..30 s) before every event, decided against the instant of the reference '
           'timer\'s last start / restart; pairs of peer events delivered in ONE transport segment.',
    'C06': ' Also: the same message object re-assigned and sent again before the provider thread drained the first send '
           '(symbolic schedule).',
    'C07': ' Also: Command Data Set Type = any 16-bit value but 0101H; 2-3 messages in a row on one association through the '
           'real DT-2 / AR-6 (file-backed and in-memory mixed, files closed by the application or not).',
    'C08': ' Also: lagging provider-thread schedule for re-sent objects; contexts accepted with little- and big-endian '
           'transfer syntaxes (the command set stays implicit VR little endian).',
    'C10': ' Also, over the REAL provider (octets in): a peer sending P-DATA-TF PDUs as long as the value the library '
           'announced must be received intact, whatever the peer announced for the other direction (both roles).',
    'C11': ' Also: result items of the reply in any of the 24 orders (results belong to proposals by context id); a second '
           'request on the same requester object after a refusal.',
    'C12': ' Hostile bytes are also fed in the release and release-collision states 8-12.',
    'C13': ' Also: disconnection by a connection reset that is already pending when the last bytes are read; ARTIM expiry of '
           'one association while another association of the same entity is established, served and released (real '
           'providers, symbolic clock).',
    'C14': ' Also, through the public API over real providers and scripted peers (octets): abort / release request in the '
           'same transport segment as a response; nested requested associations where the inner one is refused or aborted '
           '(the outer one must be aborted, the inner error unchanged).',
    'C15': ' Also: data sets that are exactly one full fragment; the receiving side as real acceptor + real provider next to '
           'a second association with the other transfer syntax on the same context id; directory storage over every '
           'subset of six candidate file names.',
    'C16': ' Also: the provider behind the real acceptor loop and provider (octets in / out) with the FIND class accepted on '
           'three contexts with different transfer syntaxes, queries sent with command and identifier packed in one PDU.',
    'C17': ' Also: faults of the reverse association after an N-ACTION request was accepted (the request is still answered); '
           'the C-FIND provider serving two associations interleaved at handler granularity.',
    'C18': ' The table model is independent of how the module organises its tables; also: registrations made after import '
           '(a general registration never overrides a service-specific class).',
    'C19': ' Provider-thread schedule (eager / lagging drain) symbolic for the C-MOVE provider and the C-GET user.',
    'C20': ' Also: two associations as real acceptors over REAL stepped providers with the same context id and different '
           'transfer syntaxes, one of them ending badly, symbolic clock afterwards; and message ids under FORCED pre-emption '
           'of real threads at every byte-code boundary of _new_msg_id (switch point chosen by the solver).',
}
ADDED2 = {'C03': " One inductive step of the framing function (`framing_step`): from every PDU boundary of every conversation's stream with a SYMBOLIC fill level, one call of the real _process_incoming consumes exactly one complete PDU or nothing.", 'C05': ' A connection reset by the peer is an event of the alphabet (reads and writes fail).', 'C06': ' A message of 1..40 PDUs handed to a real provider reaches the socket PDU for PDU.', 'C09': ' 120..128 proposed contexts; entity configured with a title different from the called one.', 'C11': ' Peer maximum 0 / boundary values in the reply; classes configured with different transfer-syntax sets.', 'C12': ' Pipelined floods of up to 48 messages with the user not reading (bounded queues are modelled).', 'C13': ' recv(MSG_WAITALL) and connection resets are modelled; requestor-side release collision in the corpus.', 'C16': ' c_find called up to 70 times in a row over live requesters.', 'C18': ' The statuses yielded by the C-MOVE / C-FIND / C-GET users for a symbolic code.', 'C19': ' The release of the C-MOVE sub-association may time out (symbolic).', 'C20': ' Two live requesters alive at once under all 256 schedule words (thorough) / 64 (quick); simultaneous reads with a thread switch right after a read returns.'}
# fourth session (round five of seeded changes)
ADDED3 = {
    'C01': ' A whole A-ASSOCIATE-RQ whose User Identity fields have symbolic UTF-8 contents (nested lengths and the '
           'decoders that honour them must agree).',
    'C08': ' Two message objects of one class alive at the same time, sent in either order: each command set describes '
           'its own message.',
    'C09': ' One association with several messages on symbolic contexts (same class accepted on two contexts, rejected on '
           'a third): each served iff its own context was accepted, with that context\'s id and syntax.',
    'C11': ' The same SOP class configured as SCU and as SCP (proposed on two contexts), results and reply order symbolic.',
    'C12': ' Unknown PDU types also with the connection reset right behind them (the A-ABORT cannot be written; the user '
           'is still told, once).',
    'C03': ' Corpus: a long PDU of unknown type with a short PDU right behind it (established association and as the very '
           'first PDU), release collision on the acceptor side, abort by the requesting user.',
    'C04': ' The cells whose action closes the transport connection without writing to it, executed on a connection the '
           'peer has already reset (shutdown() fails with ENOTCONN).',
    'C07': ' Peer maxima of 7..16 octets (the command set alone becomes up to 116 fragments), five groupings.'
           ' The indication must be complete at the moment it is queued for the user\'s thread (data set attached, file '
           'rewound): the queue stand-in snapshots the message inside put().',
    'C13': ' The association ends (close / reset / abort / stop request) behind 1..100 indications nobody reads.'
           ' Disconnection between any two local steps (after the provider has written g PDUs, g symbolic, close / reset); a '
           'stop request while the peer is silent (symbolic iteration and clock); through the public API over a real '
           'provider: a requested association whose peer goes silent in Sta5 / Sta6 / Sta7 - Association.kill() returns '
           '(liveness of the provider thread and bounded stop() polling are modelled).',
    'C14': ' Leaving a requested association while 1..200 indications are unread (symbolic selector): the peer still gets '
           'the A-RELEASE-RQ / exactly one A-ABORT. The octets of an abort issued locally (requester / acceptor, symbolic '
           'reason) carry that source and reason.',
    'C15': ' The application handler may close the file it is handed (symbolic); handler statuses include legal codes the '
           'library has no table entry for.',
    'C16': ' One of the matches may be an EMPTY identifier (zero octets) at a symbolic position.'
           ' The form in which the application yields each pending status (Status with / without response type, plain int, '
           'module constant) is a symbolic choice per match.',
    'C17': ' C-FIND responses also under the lagging provider-thread schedule.'
           ' C-MOVE with the REAL storage user on the sub-association and the request\'s message id symbolic over the whole '
           '16-bit range: every C-STORE-RQ must be encodable and every request answered.',
    'C20': ' The accept loop of the serving entity (verify_request) admits a connection whose peer has sent 0..all octets of '
           'its request and then stays silent without reading from it, blocking on it or changing its time-out. No requester '
           'waits for its peer while holding the entity-wide configuration lock (lock stand-in).',
}
for _pid, _txt in ADDED2.items():
    ADDED[_pid] = ADDED.get(_pid, '') + _txt
for _pid, _txt in ADDED3.items():
    ADDED[_pid] = ADDED.get(_pid, '') + _txt
for _pid, _txt in ADDED.items():
    CLAIMED[_pid]['text'] = CLAIMED[_pid]['text'] + _txt

NOT_YET = 'check not built yet in this revision (see DESIGN.md section 5 for the plan)'

NOT_APPLICABLE = {}


def build():
    props = []
    with open(os.path.join(vt.VERIF, 'properties.jsonl')) as f:
        for line in f:
            if line.strip():
                props.append(json.loads(line)['id'])
    checks = []
    na = []
    for pid in props:
        if pid in CLAIMED:
            c = CLAIMED[pid]
            checks.append(dict(
                property_id=pid,
                quick_cmd='bin/check %s' % pid,
                thorough_cmd='VERIF_TIER=thorough bin/check %s' % pid,
                evidence_file='evidence/%s.json' % pid,
                replay_cmd_template='bin/check --replay {path}',
                engine='crosshair',
                level_claimed=dict(category=c.get('category', 'model_checking'), text=c['text'],
                                   design_ref='DESIGN.md section ' + c['design']),
                level_note=c['note'],
                technique=c.get('technique', TECH),
            ))
        else:
            na.append(dict(property_id=pid, reason=NOT_APPLICABLE.get(pid, NOT_YET)))
    man = dict(
        version=1,
        setup_cmd='bin/setup.sh',
        hooks=dict(guard='PYNETDICOM2_VERIF', enable='none needed: every stub is installed from the harness by assigning '
                   'module globals of the imported /repo modules or by crosshair.register_patch; /repo carries no hook',
                   baseline_off_cmd='cd /repo && /venv/bin/python -m pytest -ra -q -p no:cacheprovider --timeout=900 '
                                    '--continue-on-collection-errors',
                   source_commits=[], add_only=True),
        engines=[dict(name='crosshair', path='vt/runner.py', serves_properties=sorted(CLAIMED),
                      kind_free_text='CrossHair 0.0.110 symbolic execution of /repo bytecode with z3; one worker '
                                     'process per batch of condition instances; concrete replay of counterexamples')],
        checks=checks,
        notes='Solver-based checking only. Exit codes of bin/check: 0 held on everything explored, 1 replayed violation '
              '(VIOLATION line), 3 harness error / vacuity (never on the pinned tree). Conditions not exhausted within '
              'their budget are reported as inconclusive in the evidence file, never as confirmed.',
        not_applicable=na,
    )
    return man


if __name__ == '__main__':
    man = build()
    with open(os.path.join(vt.VERIF, 'MANIFEST.json'), 'w') as f:
        json.dump(man, f, indent=1)
    print('MANIFEST.json: %d checks, %d not_applicable' % (len(man['checks']), len(man['not_applicable'])))
