"""bin/check <property id> [--tier quick|thorough] [--only substr] [--jobs N] | --replay <path>

Expands the property's harness conditions into instances, runs every instance (and its reachability twin) in
its own CrossHair worker process, replays every counterexample concretely against the real code, prints
VIOLATION / KNOWN-FINDING lines, writes /verif/evidence/<id>.json.  Exit 0 / 1 / 3 (harness error, vacuity).
"""
import concurrent.futures as cf
import hashlib
import importlib
import json
import os
import random
import subprocess
import sys
import time

import vt

PY = sys.executable
VERIF = vt.VERIF
# development only (scratch copies analysed with VT_REPO): keep their evidence and replays away from the real ones
EVDIR = os.environ.get('VT_EVIDENCE_DIR') or os.path.join(VERIF, 'evidence')

HARNESS = {
    'C%02d' % i: ['vt.harness.c%02d' % i] for i in range(1, 21)
}

LEVEL = 'model_checking'


def level_of(pid):
    try:
        from vt import manifest
        return manifest.CLAIMED.get(pid, {}).get('category', LEVEL)
    except Exception:
        return LEVEL


def _run_json(cmd, marker, timeout, env=None):
    try:
        p = subprocess.run(cmd, cwd=VERIF, capture_output=True, text=True, timeout=timeout, env=env)
    except subprocess.TimeoutExpired:
        return None, 'wall timeout after %ss' % timeout, -9
    for line in p.stdout.splitlines()[::-1]:
        if line.startswith(marker):
            try:
                return json.loads(line[len(marker):]), p.stderr[-2000:], p.returncode
            except ValueError:
                break
    return None, (p.stdout[-1500:] + '\n' + p.stderr[-2500:]), p.returncode


def replay_file(path, profile=False, timeout=600):
    env = dict(os.environ, VT_REPLAY='1')
    cmd = [PY, '-m', 'vt.replay', path] + (['--profile'] if profile else [])
    return _run_json(cmd, '@@REPLAY@@', timeout, env)


def write_replay(pid, module, cname, famv, args, mode, tag=''):
    d = os.path.join(EVDIR, 'replays')
    os.makedirs(d, exist_ok=True)
    spec = dict(property=pid, module=module, cond=cname, fam=famv, args=args, mode=mode)
    h = hashlib.sha1(json.dumps(spec, sort_keys=True).encode()).hexdigest()[:10]
    path = os.path.join(d, '%s-%s-%s%s.json' % (pid, cname, h, tag))
    with open(path, 'w') as f:
        json.dump(spec, f, indent=1, sort_keys=True)
    return path


def load_known(pid):
    p = os.path.join(VERIF, 'known_findings.json')
    if not os.path.exists(p):
        return []
    with open(p) as f:
        data = json.load(f)
    return [e for e in data.get('findings', []) if e.get('property') == pid and e.get('status', 'open') == 'open']


def run_batch(batch, wall):
    """Run a list of task dicts in one worker process; returns {index: result}."""
    cmd = [PY, '-m', 'vt.worker', json.dumps(batch)]
    got = {}
    try:
        p = subprocess.run(cmd, cwd=VERIF, capture_output=True, text=True, timeout=wall)
        stdout, stderr = p.stdout, p.stderr
    except subprocess.TimeoutExpired as e:
        stdout = e.stdout.decode() if isinstance(e.stdout, bytes) else (e.stdout or '')
        stderr = 'wall timeout after %ss' % wall
    for line in stdout.splitlines():
        if line.startswith('@@RESULT@@'):
            try:
                r = json.loads(line[len('@@RESULT@@'):])
                got[r['index']] = r
            except ValueError:
                pass
    return got, stderr[-2500:]


def finish_instance(pid, task, out, err):
    """Classify a worker result; replay counterexamples concretely in a clean process."""
    c = task['_cond']
    famv = task['fam']
    res = dict(cond=c.name, fam=famv, bounds=c.meta.get('bounds', ''), budget_s=task['timeout'])
    if out is None:
        res.update(status='error', message='worker died: %s' % (err,))
        return res
    res.update(status=out['status'], message=out.get('message', '')[:600], paths=out.get('paths', 0),
               confirmed_paths=out.get('confirmed_paths', 0), z3_queries=out.get('z3_queries', 0),
               z3_seconds=out.get('z3_seconds', 0.0), cpu_s=out.get('cpu_s', 0.0))
    if 'reach' in out:
        res['reach'] = out['reach']
    if out['status'] == 'error':
        res['traceback'] = out.get('traceback', '')
        res['message'] += ' ' + out.get('traceback', '')[-600:]
    if out['status'] == 'refuted':
        res['cex_args'] = out.get('args')
        res['cex_kind'] = out.get('kind')
        if out.get('traceback'):
            res['traceback'] = out.get('traceback', '')[-1500:]
        if out.get('args') is None:
            res.update(status='error', message='counterexample without realised arguments: ' + res['message'])
            return res
        path = write_replay(pid, task['module'], c.name, famv, out['args'], 'check')
        rp, rerr, rrc = replay_file(path)
        res['replay'] = path
        res['replay_outcome'] = rp['outcome'] if rp else 'replay-error rc=%s %s' % (rrc, rerr[-500:])
        if rp:
            res['replay_detail'] = (rp.get('detail') or '')[:500]
            if rp.get('explain'):
                res['explain'] = rp['explain'][:1500]
        if rp and rp['outcome'] in ('false', 'exception'):
            res['status'] = 'violation'
        else:
            res['status'] = 'spurious'
            res['message'] = 'counterexample %s did not reproduce concretely (%s): %s' % (
                out['args'], res['replay_outcome'], res['message'])
            try:
                os.remove(path)
            except OSError:
                pass
    return res


def check_property(pid, tier, only=None, jobs=None, seed=0):
    t0 = time.time()
    vt.use_repo()
    modules = HARNESS[pid]
    tasks = []
    known = load_known(pid)
    known_lines = []
    violations = []
    harness_errors = []
    os.environ['VERIF_TIER'] = tier
    rdir = os.path.join(EVDIR, 'replays')
    if os.path.isdir(rdir) and not only and not os.environ.get('VT_ONLY_FAM'):
        for fn in os.listdir(rdir):
            if fn.startswith(pid + '-'):
                os.remove(os.path.join(rdir, fn))
    for module in modules:
        mod = importlib.import_module(module)
        for c in getattr(mod, '__conds__', []):
            if tier not in c.meta.get('tiers', ('quick', 'thorough')):
                continue
            if only and only not in c.name:
                continue
            excl = []
            for e in known:
                if e.get('condition') != c.name:
                    continue
                # replay the recorded witness; keep the exclusion only while it still fails
                path = write_replay(pid, module, c.name, e.get('fam') or {}, e['witness_args'], 'check', '-known')
                rp, rerr, rrc = replay_file(path)
                try:
                    os.remove(path)
                except OSError:
                    pass
                if rp and rp['outcome'] in ('false', 'exception'):
                    known_lines.append('KNOWN-FINDING: property=%s %s' % (pid, e['what_fails']))
                    excl.append((e['signature'], e.get('fam')))
                elif rp is None:
                    harness_errors.append('known-finding witness %s could not be replayed: %s' % (e['id'], rerr))
            for famv in c.instances(tier):
                if os.environ.get('VT_ONLY_FAM') and os.environ['VT_ONLY_FAM'] not in repr(famv):
                    continue
                ex = [s for s, f in excl if f is None or f == famv or not f]
                tasks.append((module, c, famv, ex))
    rnd = random.Random(seed)
    rnd.shuffle(tasks)
    jobs = jobs or int(os.environ.get('VT_JOBS', '8'))
    tlist = []
    for i, (m, c, famv, excl) in enumerate(tasks):
        budget = c.meta.get('timeout') or 60
        if tier == 'thorough':
            budget = c.meta.get('thorough_timeout') or max(budget * 4, 240)
        tlist.append(dict(index=i, module=m, cond=c.name, fam=famv, timeout=budget, exclude=excl,
                          reach=bool(c.meta.get('reach', True)), _cond=c, _cost=c.meta.get('cost') or budget / 20.0))
    # batches: expensive tasks first, dealt round-robin so that a worker process is reused for several instances
    order = sorted(tlist, key=lambda t: -t['_cost'])
    nb = max(1, min(len(order), jobs * 3))
    batches = [[] for _ in range(nb)]
    loads = [0.0] * nb
    for t in order:
        k = loads.index(min(loads))
        batches[k].append(t)
        loads[k] += t['_cost']
    batches.sort(key=lambda b: -sum(t['_cost'] for t in b))

    def strip(t):
        return {k: v for k, v in t.items() if not k.startswith('_')}

    def do_batch(batch):
        wall = sum(t['timeout'] for t in batch) * 3 + 180
        got, err = run_batch([strip(t) for t in batch], wall)
        out = []
        for t in batch:
            r = got.get(t['index'])
            if r is None and len(batch) > 1:
                # the worker died on an earlier task: run this one alone
                g2, err2 = run_batch([strip(t)], t['timeout'] * 3 + 180)
                r = g2.get(t['index'])
                err = err2
            out.append(finish_instance(pid, t, r, err))
        return out
    results = []
    with cf.ThreadPoolExecutor(max_workers=jobs) as ex:
        for rs in ex.map(do_batch, batches):
            results.extend(rs)
    results.sort(key=lambda r: (r['cond'], json.dumps(r['fam'], sort_keys=True)))
    for line in sorted(set(known_lines)):
        print(line)
    n_conf = n_unknown = 0
    for r in results:
        st = r['status']
        if st == 'violation':
            violations.append(r)
        elif st == 'confirmed':
            n_conf += 1
        elif st == 'unknown':
            n_unknown += 1
        elif st in ('error', 'spurious', 'pre_unsat'):
            harness_errors.append('%s %s: %s %s' % (r['cond'], r['fam'], st, r.get('message', '')[:300]))
        if st in ('confirmed', 'unknown') and 'reach' in r and 'error' in r['reach']:
            harness_errors.append('%s %s: vacuity guard failed: %s' % (r['cond'], r['fam'], r['reach']['error'][:300]))
    for r in violations:
        print('VIOLATION property=%s replay=%s' % (pid, r['replay']))
        print('  condition %s fam=%s args=%s -> %s %s' % (r['cond'], r['fam'], r['cex_args'], r['replay_outcome'],
                                                       r.get('replay_detail', '')))
        if r.get('explain'):
            print('  ' + r['explain'].replace('\n', '\n  '))
    for h in harness_errors:
        print('HARNESS-ERROR property=%s %s' % (pid, h))
    wall = time.time() - t0
    write_evidence(pid, tier, seed, results, violations, harness_errors, known_lines, wall)
    print('%s tier=%s: %d instances, %d confirmed over all paths, %d inconclusive within budget, %d violations, '
          '%d harness errors, %.1fs' % (pid, tier, len(results), n_conf, n_unknown, len(violations),
                                        len(harness_errors), wall))
    if violations:
        return 1
    if harness_errors or not results:
        return 3
    return 0


def write_evidence(pid, tier, seed, results, violations, harness_errors, known_lines, wall):
    paths = sum(r.get('paths', 0) for r in results)
    confirmed_paths = sum(r.get('confirmed_paths', 0) for r in results)
    functions = []
    seen = set()
    for r in results:
        for f in (r.get('reach') or {}).get('functions', []):
            if f not in seen:
                seen.add(f)
                functions.append(f)
    samples = []
    for r in results:
        s = dict(condition=r['cond'], family=r['fam'], bounds=r.get('bounds', ''), status=r['status'],
                 paths=r.get('paths', 0), confirmed_paths=r.get('confirmed_paths', 0),
                 z3_queries=r.get('z3_queries', 0), z3_seconds=r.get('z3_seconds', 0.0),
                 cpu_s=r.get('cpu_s', 0.0), budget_s=r.get('budget_s'))
        if 'reach' in r:
            s['reach_witness'] = r['reach'].get('witness', r['reach'].get('error'))
        if r['status'] == 'violation':
            s['counterexample'] = r.get('cex_args')
            s['replay'] = r.get('replay')
        if r['status'] in ('error', 'spurious', 'pre_unsat'):
            s['message'] = r.get('message', '')[:400]
        samples.append(s)
    mods = [importlib.import_module(m) for m in HARNESS[pid]]
    assumptions = []
    for m in mods:
        assumptions.extend(getattr(m, 'ASSUMPTIONS', []))
    assumptions.append('environment models of vt/models.py (PyStruct for struct.Struct.pack/unpack, PyBytesIO for '
                       'io.BytesIO) behave like CPython; validated differentially by vt.selftest at setup')
    assumptions.append('CrossHair 0.0.110 + z3 are sound for the Python subset executed; every counterexample is '
                       'replayed without them before being reported')
    n_confirmed = sum(1 for r in results if r['status'] == 'confirmed')
    ev = dict(
        property_id=pid, tier=tier, seed=seed, level=level_of(pid), wall_s=round(wall, 1),
        violations=len(violations),
        coverage=dict(
            evaluations=max(paths, 1),
            distinct_nontrivial=confirmed_paths,
            rule='one evaluation = one symbolic execution path of a condition explored by CrossHair (each path is a '
                 'distinct conjunction of branch decisions covering every input that satisfies it); non-trivial = '
                 'the path satisfied all preconditions, ran the real /repo code to the oracle comparison and was '
                 'confirmed by z3 (paths cut by a precondition are not counted)',
            samples=samples,
            exhaustive=bool(results) and n_confirmed == len(results),
            conditions=len(results), conditions_confirmed_over_all_paths=n_confirmed,
            conditions_inconclusive=sum(1 for r in results if r['status'] == 'unknown'),
            solver_queries=sum(r.get('z3_queries', 0) for r in results),
            solver_seconds=round(sum(r.get('z3_seconds', 0.0) for r in results), 2),
            functions_encoded=functions,
            engine='crosshair-tool 0.0.110 (z3 %s) on /repo working tree' % _z3v(),
            known_findings=known_lines, harness_errors=harness_errors,
            outside_bounds=sorted(set(c.meta.get('outside', '') for m in mods for c in getattr(m, '__conds__', [])
                                      if c.meta.get('outside'))),
        ),
        assumptions=assumptions,
    )
    os.makedirs(EVDIR, exist_ok=True)
    with open(os.path.join(EVDIR, '%s.json' % pid), 'w') as f:
        json.dump(ev, f, indent=1, sort_keys=True)


def _z3v():
    try:
        import z3
        return z3.get_version_string()
    except Exception:
        return '?'


def main(argv):
    if argv and argv[0] == '--replay':
        rp, err, rc = replay_file(argv[1])
        print(json.dumps(rp, indent=1) if rp else err)
        if rp and rp['outcome'] in ('false', 'exception'):
            sys.exit(1)
        sys.exit(0 if rp else 3)
    pid = argv[0]
    tier = os.environ.get('VERIF_TIER', 'quick')
    only = None
    jobs = None
    i = 1
    while i < len(argv):
        if argv[i] == '--tier':
            tier = argv[i + 1]
            i += 2
        elif argv[i] == '--only':
            only = argv[i + 1]
            i += 2
        elif argv[i] == '--fam':
            os.environ['VT_ONLY_FAM'] = argv[i + 1]     # development: only instances whose family values contain this text
            i += 2
        elif argv[i] == '--jobs':
            jobs = int(argv[i + 1])
            i += 2
        elif argv[i] == '--replay':
            return main(argv[i:])
        else:
            i += 1
    seed = int(os.environ.get('VERIF_SEED', '0') or 0)
    sys.exit(check_property(pid, tier, only, jobs, seed))


if __name__ == '__main__':
    main(sys.argv[1:])
