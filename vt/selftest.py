"""Differential validation of the environment models against CPython (run by bin/setup.sh).  Exit 0 iff all agree."""
import io
import random
import struct
import sys

import vt


def check_struct():
    vt.use_repo()
    from vt import models
    from pynetdicom2 import pdu, userdataitems as udi
    fmts = set()
    for mod in (pdu, udi):
        for cls in vars(mod).values():
            if isinstance(cls, type):
                for v in vars(cls).values():
                    if isinstance(v, struct.Struct):
                        fmts.add(v.format)
    fmts |= {'B', 'b', 'B B', '>H', '>L', '>I B'}
    n = 0
    rnd = random.Random(1)
    for fmt in sorted(fmts):
        order, items, size = models._parsed(fmt)
        assert size == struct.calcsize(fmt), fmt
        for trial in range(60):
            vals = []
            for code, cnt in items:
                if code == 's':
                    ln = rnd.choice([0, 1, cnt - 1, cnt, cnt + 1, cnt + 5])
                    vals.append(bytes(rnd.randrange(256) for _ in range(max(ln, 0))))
                else:
                    bits = 8 * models._SIZES[code]
                    if code in models._SIGNED:
                        lo, hi = -(1 << (bits - 1)), (1 << (bits - 1)) - 1
                    else:
                        lo, hi = 0, (1 << bits) - 1
                    vals.append(rnd.choice([lo, hi, lo - 1, hi + 1, 0, 1, (lo + hi) // 2, rnd.randint(lo, hi)]))
            try:
                want = struct.pack(fmt, *vals)
            except struct.error:
                want = 'error'
            try:
                got = models.py_pack(fmt, *vals)
            except struct.error:
                got = 'error'
            assert got == want, (fmt, vals, got, want)
            n += 1
            if want != 'error':
                assert models.py_unpack(fmt, want) == struct.unpack(fmt, want), (fmt, want)
            for bad in (b'', b'\0' * (size - 1), b'\0' * (size + 1)):
                try:
                    models.py_unpack(fmt, bad)
                    ok = False
                except struct.error:
                    ok = True
                assert ok, (fmt, bad)
    return n


def check_bytesio():
    from vt.models import PyBytesIO
    rnd = random.Random(2)
    n = 0
    for trial in range(300):
        init = bytes(rnd.randrange(256) for _ in range(rnd.randrange(0, 12)))
        a, b = io.BytesIO(init), PyBytesIO(init)
        for step in range(25):
            op = rnd.choice(['read', 'readall', 'seek0', 'seek1', 'seek2', 'tell', 'write', 'getvalue', 'writelines'])
            if op == 'read':
                k = rnd.randrange(0, 8)
                ra, rb = a.read(k), b.read(k)
            elif op == 'readall':
                ra, rb = a.read(), b.read()
            elif op == 'seek0':
                k = rnd.randrange(0, 16)
                ra, rb = a.seek(k), b.seek(k)
            elif op == 'seek1':
                k = rnd.randrange(-6, 6)
                ra, rb = a.seek(k, 1), b.seek(k, 1)
            elif op == 'seek2':
                k = rnd.randrange(-6, 3)
                ra, rb = a.seek(k, 2), b.seek(k, 2)
            elif op == 'tell':
                ra, rb = a.tell(), b.tell()
            elif op == 'write':
                d = bytes(rnd.randrange(256) for _ in range(rnd.randrange(0, 6)))
                ra, rb = a.write(d), b.write(d)
            elif op == 'writelines':
                d = [bytes([rnd.randrange(256)]) * rnd.randrange(0, 3) for _ in range(2)]
                ra, rb = a.writelines(d), b.writelines(d)
            else:
                ra, rb = a.getvalue(), b.getvalue()
            assert ra == rb, (trial, step, op, ra, rb)
            n += 1
        a.close()
        b.close()
        for f in (a, b):
            try:
                f.read(1)
                raise AssertionError('read on closed')
            except ValueError:
                pass
    return n


def check_status_tables():
    """the IntervalTable stand-ins of C18 against the module's own tables on every code 0..65535 x every key"""
    import warnings
    warnings.simplefilter('ignore')
    from vt.harness import c18
    from pynetdicom2 import dimsemessages as dm
    n = 0
    assert c18.REAL, 'no status table was wrapped: %r' % (c18.UNWRAPPED,)
    cfs = [None, 0x7777] + sorted(dm.MESSAGE_TYPE)
    for name, real in c18.REAL.items():
        t = c18.WRAPPED[name]
        if t.mode == 'pair':
            for cf in cfs:
                for code in range(65536):
                    assert t.get((cf, code), '??') == real.get((cf, code), '??'), (name, cf, code)
                    n += 1
        elif t.mode == 'code':
            for code in range(-1, 65537):
                assert t.get(code, '??') == real.get(code, '??'), (name, code)
                n += 1
        else:
            for k, sub in real.items():
                w = t.get(k)
                for code in range(65536):
                    assert w.get(code, '??') == sub.get(code, '??'), (name, k, code)
                    n += 1
    return n


def main():
    n1 = check_struct()
    n2 = check_bytesio()
    extra = ['status tables %d look-ups' % check_status_tables()]
    try:
        from vt import sim
        if hasattr(sim, 'selftest'):
            extra.append(sim.selftest())
    except ImportError:
        pass
    print('selftest ok: struct model %d packs, BytesIO model %d ops %s' % (n1, n2, ' '.join(map(str, extra))))


if __name__ == '__main__':
    try:
        main()
    except AssertionError as e:
        print('SELFTEST FAILED', e)
        sys.exit(1)
